"""C18 — undeclared_variables never omits a variable the template reads.

Sibling cross-check of the assignment tracker (compiler/meta.rs) against the code generator over the same AST:
 W1 field coverage: every payload field of every AST node type that the code generator hands to an evaluating
    function (compile_expr / compile_stmt / compile_call_args) is handed by the tracker to a visiting function
    (tracker_visit_expr / track_walk / tracker_visit_callarg).  Reviewed exclusions: the template-name expressions of
    the multi-template constructs, which the documentation excludes.
 W2 assign-after-evaluate: where the code generator evaluates field B before it assigns field A of the same node,
    the tracker must not mark A as assigned before it visits B.
 W3 a variable lookup is reported unless it is assigned: the Var arm of tracker_visit_expr inserts the name into the
    result under `!is_assigned(name)` and the result of find_undeclared derives from that set.
Not decided: the implicit names (loop, self, super, caller) the tracker pre-assigns.
"""
from ..facts import op_place
from .. import cfg, flow, events, arms, errflow
from ..facts import norm_path, op_place as op_place_

G = "minijinja::compiler::codegen::CodeGenerator::"
M = "minijinja::compiler::meta::"
AST = "minijinja::compiler::ast::"

# the template-name expressions of extends / include / import were excluded here ("multi-template") until a seeding
# sub-agent showed what the exclusion hid: the same tracker decides what a macro encloses, so `{% include part %}`
# inside a macro lost `part` (fix e2743d4).  They are ordinary evaluated fields now.
EXCLUDED = {
    ("FromImport", "names.0"): "imported names are looked up in the other template, not in the context",
}


def _none_is_overwritten_when_flag_set(f, o):
    """`let mut v = None; if self.flag { v = Some(..) }`: the None definition (Origin o in f) reaches a return without
    being overwritten only on paths on which some boolean field flag is false"""
    st = f.stmts(o.bb)
    if o.idx is None or o.idx >= len(st) or st[o.idx].get("k") != "assign" or "p" in st[o.idx]["place"]:
        return False
    l = st[o.idx]["place"]["l"]
    # follow an immediate move into the user variable
    for _ in range(3):
        nxt = [(bb, i, s_) for bb, i, s_ in f.all_stmts() if s_.get("k") == "assign" and s_["rv"]["k"] == "use"
               and "c" not in s_["rv"]["op"] and op_place(s_["rv"]["op"]) == {"l": l} and "p" not in s_["place"]]
        if len(nxt) == 1 and not f.local_name(l):
            l = nxt[0][2]["place"]["l"]
        else:
            break
    kills = {d.bb for d in flow.whole_defs(f, l) if d.kind in ("stmt", "call") and d.bb != o.bb}
    if not kills:
        return False
    rets = set(f.returns())
    for sbb in f.reachable:
        t = f.term(sbb)
        if t["k"] != "switch":
            continue
        cd = flow.cond_of(f, sbb)
        if cd.kind != "local" or not isinstance(cd.place, dict):
            continue
        if not any(isinstance(e, dict) and e.get("ty") == "bool" and "n" in e for e in cd.place.get("p", [])):
            continue
        false_edges = cfg.bool_edges(f, sbb, cd.neg)      # edges taken when the flag is false
        reach = cfg.reach_from(f, o.bb, avoid=kills, removed_edges=false_edges)
        if not (reach & rets):
            return True
    return False


def _is_stmt_sink(prog, name):
    if not name:
        return False
    if name.endswith("::compile_stmt"):
        return True
    f = prog.fns.get(name)
    return f is not None and any("ast::Stmt" in f.locals[l].get("s", "") for l in range(2, f.argc + 1))


def labelled_events(prog):
    """(codegen events, tracker events, codegen sinks, tracker sinks)"""
    lab = events.Labeller(prog)
    cg = [f for k, f in prog.fns.items() if k.startswith(G)]
    mt = [f for k, f in prog.fns.items() if k.startswith(M)]
    csinks = {G + "compile_expr": ("eval", 1), G + "compile_stmt": ("eval", 1), G + "compile_assignment": ("assign", 1),
              G + "compile_call_args": ("eval", 1), G + "compile_call": ("eval", 1), G + "compile_emit_expr": ("eval", 1)}
    # helpers of the generator that take statements or an expression are sinks as well (found by their parameter type, so
    # that moving a `for node in body { compile_stmt(node) }` loop into a helper does not hide the body from the rules)
    for k, f in prog.fns.items():
        if not k.startswith(G) or f.kind == "closure" or k in csinks:
            continue
        for l in range(2, f.argc + 1):
            t = f.locals[l].get("s", "")
            if "ast::Stmt" in t and ("[" in t or t.startswith("&")):
                csinks[k] = ("eval", l - 1)
                break
    msinks = {M + "tracker_visit_expr": ("eval", 0), M + "tracker_visit_expr_opt": ("eval", 0), M + "track_walk": ("eval", 0),
              M + "track_assign": ("assign", 0), M + "tracker_visit_callarg": ("eval", 0), M + "tracker_visit_macro": ("eval", 0)}
    # the same on the tracker's side: a helper of the walk that takes statements (`track_walk_scoped(body, state)`)
    for k, f in prog.fns.items():
        if not k.startswith(M) or f.kind == "closure" or k in msinks:
            continue
        for l in range(1, f.argc + 1):
            t = f.locals[l].get("s", "")
            if "ast::Stmt" in t and ("[" in t or t.startswith("&")):
                msinks[k] = ("eval", l - 1)
                break
            # .. or call arguments / expressions (`tracker_visit_callargs(&[CallArg], state)`)
            if ("ast::CallArg" in t or "ast::Expr" in t) and ("[" in t or t.startswith("&")) and "AssignmentTracker" not in t:
                msinks[k] = ("eval", l - 1)
                break
    return (list(events.collect(prog, lab, cg, csinks)), list(events.collect(prog, lab, mt, msinks)), csinks, msinks)


def check_statement_lists_walked(ctx, prog, tag, rule, ce, me):
    """every statement list the code generator compiles is walked, under its own label, by the tracker (which also
    decides what macros enclose): a list walked only as the tail of another one is walked in the wrong scope"""
    n = 0
    def walks_statements(name):
        g = prog.fns.get(name or "")
        return (name or "").endswith("::track_walk") or (g is not None and name.startswith(M) and any(
            "ast::Stmt" in g.locals[l].get("s", "") for l in range(1, g.argc + 1)))
    have = {(m.T, m.field[:1]) for m in me if m.kind == "eval" and walks_statements(m.sink)}
    seen = set()
    for e in ce:
        if e.kind != "eval" or not e.field or not _is_stmt_sink(prog, e.sink):
            continue
        key = (e.T, e.field[:1])
        if key in seen:
            continue
        seen.add(key)
        n += 1
        ctx.ob(rule, "%s%s.%s" % (tag, e.T.split("::")[-1], e.field[0]), key in have,
               "the code generator compiles the statements of %s.%s but the tracker does not walk that list on its own: the "
               "names assigned and read there are attributed to the wrong scope" % (e.T.split("::")[-1], e.field[0]), e.site)
    return n


def check_scope_mirroring(ctx, prog, tag, rule, ce, me):
    """W6 / C05.B9: the tracker's scopes mirror the engine's frames.  Where the code generator closes a frame between two
    parts of a node it evaluates (the loop frame ends - `end_for_loop`, or `PopFrame` / `PopLoopFrame` is emitted -
    before the for-else body is compiled), the tracker pops a scope between its visits of the same two parts.  If it
    does not, names bound in the first part (the loop target, `loop`, a `set` in the body) still count as assigned in
    the second: macros there do not enclose an outer variable of that name, and undeclared_variables() omits it."""
    from ..brackets import GEN as _GEN
    closers_cg = {}
    _openers, _alternators = branch_openers(prog)
    for f in {e.fn for e in ce}:
        bbs = set()
        for c in f.calls():
            if c.name == _GEN + "::end_for_loop" or c.name in _alternators:
                # the loop frame ends / the `else` of a conditional begins: what ran before may not have run at all
                bbs.add(c.bb)
            if c.name in (_GEN + "::add", _GEN + "::add_with_span") and len(c.args) > 1 and any(
                    o.kind == "agg" and o.rv.get("variant") in ("PopFrame", "PopLoopFrame") for o in flow.origins(f, c.args[1])):
                bbs.add(c.bb)
        closers_cg[f.path] = bbs
    pops_tr = {}
    for f in {e.fn for e in me}:
        pops_tr[f.path] = {c.bb for c in f.calls() if c.name == M + "AssignmentTracker::pop"}

    def between(f, a_bb, b_bb, mids):
        if a_bb in cfg.reach_from(f, b_bb):
            return False            # b can run before a (same loop): no fixed order
        for m_ in mids:
            if m_ in cfg.reach_from(f, a_bb) and b_bb in cfg.reach_from(f, m_):
                # and no way from a to b around m
                if b_bb not in cfg.reach_from(f, a_bb, avoid={m_}):
                    return True
        return False
    n = 0
    byT = {}
    for e in ce:
        if e.kind == "eval" and e.field:
            byT.setdefault(e.T, []).append(e)
    for T, evs in sorted(byT.items()):
        short = T.split("::")[-1]
        for a in evs:
            for b in evs:
                if a is b or a.fn is not b.fn or a.field[0] == b.field[0] or a.bb == b.bb:
                    continue
                # only statement lists bind arbitrary names (`set`, nested loops); what an expression part's frame binds
                # (the loop target of the filter pre-pass) is bound again for the part that follows
                if not _is_stmt_sink(prog, a.sink):
                    continue
                if not between(a.fn, a.bb, b.bb, closers_cg.get(a.fn.path, ())):
                    continue
                ta = [m for m in me if m.kind == "eval" and m.T == T and m.field[:1] == a.field[:1]]
                tb = [m for m in me if m.kind == "eval" and m.T == T and m.field[:1] == b.field[:1]]
                pairs = [(x, y) for x in ta for y in tb if x.fn is y.fn]
                if not pairs:
                    continue
                n += 1
                _scoped = self_scoping_walkers(prog)
                ok = all((x.bb != y.bb and between(x.fn, x.bb, y.bb, pops_tr.get(x.fn.path, ()))) or
                         (x.bb != y.bb and (x.sink in _scoped or y.sink in _scoped)) for x, y in pairs)
                ctx.ob(rule, "%s%s|%s..%s" % (tag, short, a.field[0], b.field[0]), ok,
                       "the engine ends a frame between %s.%s and %s.%s, but the tracker keeps its scope open across both: a "
                       "name bound in the first part still counts as assigned in the second (macros there do not enclose the "
                       "outer variable, undeclared_variables() omits it)" % (short, a.field[0], short, b.field[0]),
                       pairs[0][1].site)
    return n



def branch_openers(prog):
    """generator methods that open a conditional branch (they register a `PendingBlock::Branch`), by what they do;
    the subset that first ends the branch before (an `else`: they emit the unconditional `Jump` over the alternative)"""
    openers, alternators = set(), set()
    for k, f in prog.fns.items():
        if not k.startswith(G) or f.kind == "closure":
            continue
        branch = jump = False
        for bb, i, s_ in f.all_stmts():
            rv = s_.get("rv")
            if rv and rv["k"] == "agg" and rv.get("variant") == "Branch" and "PendingBlock" in (rv.get("adt") or ""):
                branch = True
            if rv and rv["k"] == "agg" and rv.get("variant") == "Jump" and "Instruction" in (rv.get("adt") or ""):
                jump = True
        if branch:
            openers.add(k)
            if jump:
                alternators.add(k)
    return openers, alternators


def scope_depths(f, push, pop):
    """least number of tracker scopes open (pushes - pops since the function's entry) at the start of each block"""
    least = {}
    work = [(0, 0)]
    while work:
        bb, d = work.pop()
        if bb in least and least[bb] <= d:
            continue
        if d < -4 or d > 8:
            continue
        least[bb] = d
        d2 = d
        t = f.term(bb)
        if t["k"] == "call":
            for c in f.calls():
                if c.bb == bb:
                    if c.name == push:
                        d2 += 1
                    elif c.name == pop:
                        d2 -= 1
        for x in f.succ[bb]:
            work.append((x, d2))
    return least


def self_scoping_walkers(prog):
    """tracker helpers that walk the statements they are handed inside a scope they open and close themselves
    (`track_walk_scoped(body, state)`: push .. walk .. pop)"""
    out = set()
    PUSH, POP = M + "AssignmentTracker::push", M + "AssignmentTracker::pop"
    for k, f in prog.fns.items():
        if not k.startswith(M) or f.kind == "closure":
            continue
        if not any("ast::Stmt" in f.locals[l].get("s", "") and ("[" in f.locals[l].get("s", "") or "Vec" in f.locals[l].get("s", ""))
                   for l in range(1, f.argc + 1)):
            continue
        names = {c.name for c in f.calls()}
        if PUSH not in names or POP not in names:
            continue
        least = scope_depths(f, PUSH, POP)
        walks = [c for g in [f] + prog.closures_of(k) for c in g.calls() if c.name.endswith("::track_walk")]
        host_walk_bbs = [c.bb for c in f.calls() if c.name.endswith("::track_walk") or any(
            "c" not in a and any(o.kind == "agg" and o.rv.get("closure") for o in flow.origins(f, a)) for a in c.args)]
        if walks and host_walk_bbs and all(least.get(b, 0) >= 1 for b in host_walk_bbs) and all(least.get(r, 0) == 0 for r in f.returns()):
            out.add(k)
    return out


def check_conditional_lists_scoped(ctx, prog, tag, rule, ce, me):
    """W10: statements the engine runs only on one side of a conditional jump (the bodies of an `if` / `elif` / `else`, a
    for-else body) may or may not run, so what they assign is not definitely assigned afterwards - nor in the alternative
    branch.  The tracker must therefore walk every such list inside a scope of its own (push .. walk .. pop): otherwise a
    macro declared later in the same scope does not enclose an outer variable of that name (the render context is asked
    for it when the branch was not taken) and undeclared_variables() omits it."""
    openers, _alt = branch_openers(prog)
    if not openers:
        return 0
    dom_cache = {}
    n = 0
    seen = set()
    for e in ce:
        if e.kind != "eval" or not e.field or not _is_stmt_sink(prog, e.sink):
            continue
        f = e.fn
        ops_ = [c.bb for c in f.calls() if c.name in openers]
        if not ops_:
            continue
        if f.path not in dom_cache:
            dom_cache[f.path] = cfg.dominators(f)
        dom = dom_cache[f.path]
        if not any(o in dom.get(e.bb, ()) for o in ops_):
            continue
        key = (e.T, e.field[:1])
        if key in seen:
            continue
        seen.add(key)
        ms = [m for m in me if m.kind == "eval" and m.T == e.T and m.field[:1] == e.field[:1]]
        if not ms:
            continue            # W1 / B9 report a list that is not walked at all
        n += 1
        ok = True
        why = []
        scoped = self_scoping_walkers(prog)
        for m in ms:
            if m.sink in scoped:
                continue            # the helper it is handed to opens and closes a scope around the walk
            least = scope_depths(m.fn, M + "AssignmentTracker::push", M + "AssignmentTracker::pop")
            d = least.get(m.bb)
            if d is None or d < 1:
                ok = False
                why.append("walked at scope depth %s in %s" % (d, m.fn.path.split("::")[-1]))
        ctx.ob(rule, "%s%s.%s" % (tag, e.T.split("::")[-1], e.field[0]), ok,
               "the engine runs %s.%s behind a conditional jump, so the tracker has to walk it in a scope of its own (push .. "
               "pop); %s" % (e.T.split("::")[-1], e.field[0], "; ".join(why) or "it does"), ms[0].site)
    return n


LOOPSTATE = "minijinja::vm::loop_object::LoopState"
LOAD = "minijinja::vm::context::Context::load"


def _projects(x, name, of):
    if isinstance(x, dict):
        if x.get("n") == name and x.get("of") == of:
            return True
        return any(_projects(v, name, of) for v in x.values())
    if isinstance(x, list):
        return any(_projects(v, name, of) for v in x)
    return False


def check_reserved_call_names(ctx, prog, tag):
    """W9 (after seed C18-8): a function name the tracker does not report in call position (`super()`: "the engine
    resolves it itself") must be recognised by the interpreter *before* it asks the context: in the CallFunction handler
    every `state.lookup(name)` lies on the not-equal side of the test of the instruction's name against that constant.
    The reserved names are read from the tracker (string constants it compares call names with)."""
    reserved = set()
    for f in prog.fns.values():
        if f.crate != "minijinja" or not f.loc.f.endswith("compiler/meta.rs"):
            continue
        for c in f.calls():
            if "PartialEq" in c.name and c.name.endswith("::eq") and len(c.args) == 2:
                for a in c.args:
                    for o in flow.origins(f, a):
                        if o.kind == "const":
                            s_ = flow.const_str({"c": o.const}, f)
                            if s_:
                                reserved.add(s_)
    ev = prog.fns.get("minijinja::vm::Executor::eval_impl")
    if ev is None or not reserved:
        return 0
    from .. import inline
    ev = inline.view(prog, ev, keep=("lookup", "perform_super", "get_call_args", "call", "eq"))
    INSTR = "minijinja::compiler::instructions::Instruction"
    sw = arms.enum_switches(prog, ev, INSTR)
    if not sw:
        return 0
    regs = arms.arm_regions(prog, ev, sw[0][0], INSTR)
    entry = arms.variant_targets(prog, ev, sw[0][0], INSTR).get("CallFunction")
    reg = regs.get("CallFunction", set())
    looks = [c for c in arms.calls_in(ev, reg) if c.name.endswith("State::lookup") and len(c.args) > 1 and any(
        "as CallFunction" in o.proj for o in flow.origins(ev, c.args[1]))]
    n = 0
    for name in sorted(reserved):
        tests = []
        for c in arms.calls_in(ev, reg):
            if "PartialEq" in c.name and c.name.endswith("::eq") and len(c.args) == 2:
                consts = [flow.const_str({"c": o.const}, ev) for a in c.args for o in flow.origins(ev, a) if o.kind == "const"]
                if name in consts:
                    tests.append(c)
        if not tests and not any(name == flow.const_str({"c": o.const}, ev) for c in ev.calls() for a in c.args
                                 for o in flow.origins(ev, a) if o.kind == "const"):
            continue      # the interpreter never mentions it (handled entirely at compile time)
        n += 1
        removed = set()
        for t in tests:
            for sb in sorted(ev.reachable):
                if ev.term(sb)["k"] != "switch":
                    continue
                cd = flow.cond_of(ev, sb)
                if cd.kind == "call" and cd.call.bb == t.bb:
                    # take the not-equal side away: a lookup that is still reachable is made for the reserved name too
                    removed |= cfg.bool_edges(ev, sb, cd.neg)
        reach = cfg.reach_from(ev, entry, removed_edges=removed) if entry is not None else set(ev.reachable)
        bad = [c for c in looks if c.bb in reach or not tests]
        ctx.ob("C18.W9.reserved-call-name-is-recognised-before-the-lookup", "%seval_impl|CallFunction|%s" % (tag, name), not bad,
               "the CallFunction handler asks the context for the called name before (or without) testing it against `%s`, "
               "which undeclared_variables() never reports in call position: the render looks the key `%s` up (and calls "
               "what it finds) although the static report omits it" % (name, name), ev.where(bad[0].bb) if bad else ev.loc)
    return n



def check_loop_variable_resolution(ctx, prog, tag):
    """W8 (after seed C18-7): the tracker binds `loop` for the body of every `for` - and for the filter of a filtered
    `for` it leaves it to the *enclosing* loop (the filter pre-pass is a loop without a loop variable).  The engine
    agrees only if the name lookup asks each frame in turn: a frame whose loop has no loop variable is passed over and
    the walk goes on outwards.  So wherever `Context::load` hands out a loop object, it is inside the walk over the
    frames, the loop state is the one of the frame the walk is at, and `with_loop_var` of that state was tested."""
    if not prog.has_fn(LOAD):
        return 0
    from .. import inline
    f0 = prog.fn(LOAD)
    f = inline.view(prog, f0, keep=("next", "rev", "iter", "get", "clone", "from_dyn_object", "get_global", "current_loop"))
    loops = cfg.natural_loops(f)
    walks = []
    for h, body in loops:
        for c in f.calls():
            if c.bb in body and c.name.endswith("::next") and c.args:
                if any("stack" in o.proj for o in flow.origins(f, c.args[0], through_calls=lambda k: 0 if k.args else None)):
                    walks.append((h, body, c))
    n = 0
    for bb, i, st in f.all_stmts():
        if st["k"] != "assign" or not _projects(st["rv"], "object", LOOPSTATE):
            continue
        n += 1
        # the site usually *leaves* the walk (`return Some(..)`): it belongs to the walk when the step of the walk dominates it
        inside = [(h, body, c) for (h, body, c) in walks if bb in body or cfg.dominates(f, c.bb, bb)]
        from_walk = False
        tested = False
        base = st["rv"].get("place") or op_place(st["rv"].get("op", {})) or {}
        os_ = flow.origins(f, {"cp": {"l": base.get("l", 0)}}) if base else []
        for (h, body, c) in inside:
            if any(o.kind == "call" and o.call.bb == c.bb for o in os_):
                from_walk = True
        for (sb, taken) in flow.guards(f, bb):
            cd = flow.cond_of(f, sb)
            if cd.kind == "local" and cd.place is not None:
                names = flow._proj_names(cd.place)
                src = flow.origins(f, {"cp": cd.place})
                if ("with_loop_var" in names or any("with_loop_var" in o.proj for o in src)) and flow.bool_true_labels(taken) is not cd.neg:
                    tested = True
        ok = bool(inside) and from_walk and tested
        ctx.ob("C18.W8.loop-variable-is-resolved-frame-by-frame", "%sload#%d" % (tag, n), ok,
               "Context::load hands out a loop object %s: a `loop` inside the filter of a filtered `for` (whose pre-pass "
               "frame has no loop variable) no longer reaches the enclosing loop and is looked up in the render context, "
               "while undeclared_variables() treats it as bound" % (
                   "outside the walk over the frames" if not inside else
                   ("of a loop state that is not the walked frame's" if not from_walk else "without testing with_loop_var")),
               f.where(bb))
    return n


def run(ctx):
    ctx.explain("C18: sibling cross-check by labelled events: every call of an evaluating function in the code "
                "generator and of a visiting function in the tracker is labelled with (AST node type, payload field "
                "path) obtained by tracing its argument back through iterators, closures and pattern matches; field "
                "coverage (codegen evaluates => tracker visits) and intra-node order (evaluate-before-assign in "
                "codegen => not assign-before-visit in the tracker) are compared for all node types.  Decides that "
                "no syntactic position the engine evaluates is skipped or pre-shadowed by the tracker; run-time "
                "lookups through objects and the implicit names are not decided.")
    ctx.assume("every context lookup at run time originates from an Expr::Var evaluated by the code generated for "
               "some AST expression (Lookup instructions are emitted only by compile_expr's Var arm)")
    for cname in ctx.configs():
        prog = ctx.program(cname)
        tag = "" if cname == "MAX" else "[%s]" % cname
        mt = [f for k, f in prog.fns.items() if k.startswith(M)]
        ctx.need(len(mt) >= 8, "C18: tracker functions not found")
        ce, me, csinks, msinks = labelled_events(prog)
        ctx.floor("C18 labelled codegen events" + tag, len(ce), 60 if cname != "MIN" else 45)
        ctx.floor("C18 labelled tracker events" + tag, len(me), 60 if cname != "MIN" else 45)

        def table(evs):
            d = {}
            for e in evs:
                d.setdefault(e.T.split("::")[-1], {}).setdefault((e.kind, ".".join(e.field)), []).append(e)
            return d
        ct, mtab = table(ce), table(me)
        # ---- W1
        n1 = 0
        for T in sorted(ct):
            for (kind, fld), evs in sorted(ct[T].items()):
                if kind != "eval" or not fld:
                    continue
                n1 += 1
                if (T, fld) in EXCLUDED:
                    ctx.count("C18.W1 reviewed exclusions" + tag)
                    continue
                have = [f2 for (k2, f2) in mtab.get(T, {}) if k2 == "eval" and f2]
                ok = any(f2 == fld or f2.startswith(fld + ".") or fld.startswith(f2 + ".") for f2 in have)
                ctx.ob("C18.W1.evaluated-field-is-visited", "%s%s.%s" % (tag, T, fld), ok,
                       "the code generator evaluates %s.%s (%s) but the tracker never visits it: variables read there "
                       "are not reported" % (T, fld, evs[0].site), evs[0].site)
        ctx.floor("C18.W1 evaluated (node type, field) pairs" + tag, n1, 40 if cname != "MIN" else 30)
        # W1b: the same per *position*.  An assignment target is walked by its own pair of functions (the sinks of
        # kind 'assign': compile_assignment / track_assign).  What the code generator evaluates while it compiles a
        # target (`{% set ns.attr = v %}` looks `ns` up) must be visited by the tracker's target walker: a visit of the
        # same node type in expression position does not cover it.
        c_assign = {k for k, v in csinks.items() if v[0] == "assign"}
        m_assign = {k for k, v in msinks.items() if v[0] == "assign"}
        n1b = 0
        for e in ce:
            if e.kind != "eval" or not e.field or e.fn.path not in c_assign:
                continue
            n1b += 1
            T = e.T.split("::")[-1]
            fld = ".".join(e.field)
            have = [m for m in me if m.kind == "eval" and m.fn.path in m_assign and m.T == e.T and ".".join(m.field) == fld]
            ctx.ob("C18.W1.target-operand-is-visited", "%s%s.%s" % (tag, T, fld), bool(have),
                   "while compiling an assignment target the code generator evaluates %s.%s (%s), but the tracker's "
                   "target walker does not visit it: `{%% set ns.attr = v %%}` looks `ns` up in the context without it being "
                   "reported" % (T, fld, e.site), e.site)
        ctx.floor("C18.W1 evaluations inside assignment targets" + tag, n1b, 1)

        # ---- W7: a macro encloses every name the tracker found free in its body.  In the function that emits the
        # `Enclose` instructions the loop over the tracker's result emits one for *every* name: a path that skips the
        # emission (a dedupe against names enclosed "already" - by code that may not have run) leaves the name out of the
        # closure and the body asks the render context for it.
        ENC_HOSTS = [f for f in prog.fns.values() if f.path.startswith(G) and f.kind != "closure" and any(
            c.name in (G + "add", G + "add_with_span") and len(c.args) > 1 and any(
                o.kind == "agg" and o.rv.get("variant") == "Enclose" for o in flow.origins(f, c.args[1])) for c in f.calls())]
        n7 = 0
        for f in ENC_HOSTS:
            encs = [c for c in f.calls() if c.name in (G + "add", G + "add_with_span") and len(c.args) > 1 and any(
                o.kind == "agg" and o.rv.get("variant") == "Enclose" for o in flow.origins(f, c.args[1]))]
            for h, body in cfg.natural_loops(f):
                inside = [c for c in encs if c.bb in body]
                if not inside:
                    continue
                n7 += 1
                nexts = [c for c in f.calls() if c.bb in body and c.name.endswith("::next")]
                back = {t for (t, hh) in cfg.back_edges(f) if hh == h}
                ok7 = bool(nexts) and all(cfg.paths_must_pass(f, n_.target if n_.target is not None else n_.bb,
                                                              [c.bb for c in inside], back) for n_ in nexts)
                ctx.ob("C18.W7.every-free-name-is-enclosed", tag + f.path.split("::")[-1], ok7,
                       "the loop over the names the tracker found free in the macro body can reach its next iteration without "
                       "emitting Enclose: that name is missing from the macro's closure and is looked up in the render context "
                       "although undeclared_variables() treats it as assigned", f.where(h))
        if prog.has_fn(G + "compile_macro_expression"):
            ctx.floor("C18.W7 loops emitting Enclose" + tag, n7, 1)
        # ---- W8
        n8 = check_loop_variable_resolution(ctx, prog, tag)
        ctx.floor("C18.W8 places where the name lookup hands out a loop object" + tag, n8, 1)
        # ---- W9
        n9 = check_reserved_call_names(ctx, prog, tag)
        if prog.has_fn("minijinja::vm::Executor::perform_super"):
            ctx.floor("C18.W9 reserved call names the interpreter handles" + tag, n9, 1)
        # ---- W6
        n6 = check_scope_mirroring(ctx, prog, tag, "C18.W6.tracker-scope-ends-where-the-engine's-frame-ends", ce, me)
        ctx.floor("C18.W6 frame ends between two evaluated parts of a node" + tag, n6, 1)
        n10 = check_conditional_lists_scoped(ctx, prog, tag, "C18.W10.conditionally-run-statements-are-walked-in-a-scope-of-their-own", ce, me)
        ctx.floor("C18.W10 statement lists behind a conditional jump" + tag, n10, 2)
        # ---- W2
        n2 = 0
        for T in sorted(ct):
            assigns = {f: evs for (k, f), evs in ct[T].items() if k == "assign"}
            evals = {f: evs for (k, f), evs in ct[T].items() if k == "eval" and f}
            for fa, aevs in sorted(assigns.items()):
                for fb, bevs in sorted(evals.items()):
                    if fa == fb and T in ("List", "Tuple"):
                        continue
                    b_before_a = any(events.precedes(b, a) for a in aevs for b in bevs)
                    a_before_b = any(events.precedes(a, b) for a in aevs for b in bevs)
                    if not b_before_a or a_before_b:
                        continue
                    n2 += 1
                    ta = [e for (k, f), evs in mtab.get(T, {}).items() if k == "assign" and (f == fa or f.startswith(fa.split(".")[0])) for e in evs]
                    tb = [e for (k, f), evs in mtab.get(T, {}).items() if k == "eval" and f == fb for e in evs]
                    if not ta or not tb:
                        continue
                    wrong = any(events.precedes(a, b) for a in ta for b in tb)
                    ctx.ob("C18.W2.not-assigned-before-evaluated", "%s%s|%s<-%s" % (tag, T, fa, fb), not wrong,
                           "the engine evaluates %s.%s before it assigns %s.%s, but the tracker marks %s as assigned "
                           "first: a self-reference like reading the old value is not reported" % (T, fb, T, fa, fa),
                           (ta[0].site if ta else ""))
        ctx.floor("C18.W2 evaluate-before-assign pairs" + tag, n2, 4)
        # W2b: element-wise constructs (`{% with a = 1, b = a %}`: a collection of (target, value) pairs).  Within one
        # iteration W2 orders value before target; *across* elements it matters whether both happen in one loop
        # (element i is assigned before element i+1 is evaluated) or in two phases (all values first).  If the engine
        # evaluates all values before it assigns any target while the tracker interleaves, the tracker treats an
        # earlier target as assigned where the engine still looks the name up in the context.

        def same_loop(evs_a, evs_b):
            for a in evs_a:
                for b in evs_b:
                    if a.fn is not b.fn:
                        continue
                    if a.bb == b.bb:
                        return True        # both inside one iterator closure
                    for h, body in cfg.natural_loops(a.fn):
                        if a.bb in body and b.bb in body:
                            return True
            return False
        n2b = 0
        for T in sorted(ct):
            assigns = {f: evs for (k, f), evs in ct[T].items() if k == "assign" and "." in f}
            evals = {f: evs for (k, f), evs in ct[T].items() if k == "eval" and "." in f}
            for fa, aevs in sorted(assigns.items()):
                for fb, bevs in sorted(evals.items()):
                    if fa == fb or fa.split(".")[0] != fb.split(".")[0]:
                        continue
                    ta = [e for (k, f), evs in mtab.get(T, {}).items() if k == "assign" and f == fa for e in evs]
                    tb = [e for (k, f), evs in mtab.get(T, {}).items() if k == "eval" and f == fb for e in evs]
                    if not ta or not tb:
                        continue
                    n2b += 1
                    cg_inter = same_loop(aevs, bevs)
                    tr_inter = same_loop(ta, tb)
                    phased = (not cg_inter) and any(events.precedes(b, a) for a in aevs for b in bevs)
                    ctx.ob("C18.W2.elements-are-bound-in-the-engine's-interleaving", "%s%s|%s<-%s" % (tag, T, fa, fb),
                           not (phased and tr_inter),
                           "the engine evaluates every %s.%s before it assigns any %s.%s, but the tracker assigns each "
                           "element before it visits the next value: `{%% with a = 1, b = a %%}` looks `a` up in the "
                           "context while the tracker treats it as assigned" % (T, fb, T, fa), (ta[0].site if ta else ""))
        # the floor is taken on the tracker's side: the code generator's labels lose the element index when it walks the
        # pairs through an iterator closure, in which case the construct cannot be classified (and is not reported)
        n2t = sum(1 for T in mtab for (k, f) in mtab[T] if k == "assign" and "." in f and any(
            k2 == "eval" and "." in f2 and f2 != f and f2.split(".")[0] == f.split(".")[0] for (k2, f2) in mtab[T]))
        ctx.floor("C18.W2 element-wise (target, value) constructs in the tracker" + tag, n2t, 1)
        ctx.count("C18.W2 element-wise constructs classified on both sides" + tag, n2b)

        # ---- W3
        # the visitor is read through a wrapper it may have been put behind (`tracker_visit_expr` -> `.._impl`): a private
        # function with a single call site is spliced into that site, whatever its size
        from .. import inline as _inl
        single = {k for k, v in prog.callers().items() if len({(c.fn.path, c.bb) for c in v}) == 1}
        tv = _inl.view(prog, prog.fn(M + "tracker_visit_expr"), keep=lambda t: t not in single or not t.startswith(M), max_blocks=2000)
        sw = arms.enum_switches(prog, tv, AST + "Expr")
        ctx.need(sw, "C18.W3: tracker_visit_expr has no switch on Expr")
        regs = arms.arm_regions(prog, tv, sw[0][0], AST + "Expr")
        var = regs.get("Var", set())
        ins = [c for c in arms.calls_in(tv, var) if c.name.endswith("HashSet::insert") and any(
            "out" in o.proj for o in flow.origins(tv, c.args[0]))]
        guarded = False
        for c in ins:
            for g in flow.guard_facts(prog, tv, c.bb):
                if g[0] == "call" and g[1] == M + "AssignmentTracker::is_assigned" and g[2] is False:
                    guarded = True
        ctx.ob("C18.W3.lookup-reported-unless-assigned", tag + "tracker_visit_expr|Var", bool(ins) and guarded,
               "the Var arm must insert the name into `out` exactly when it is not assigned", tv.loc)
        other_guards = []
        for c in ins:
            for g in flow.guard_facts(prog, tv, c.bb):
                if g[0] in ("call", "local", "bin") and not (g[0] == "call" and g[1] == M + "AssignmentTracker::is_assigned"):
                    other_guards.append(str(g[1])[:60])
        ctx.ob("C18.W3.no-extra-condition-on-reporting", tag + "tracker_visit_expr|Var", not other_guards,
               "reporting a variable additionally depends on %s" % other_guards, tv.loc)
        fu = prog.fn(M + "find_undeclared")
        ctx.ob("C18.W3.result-comes-from-the-tracker", tag + fu.path, bool(fu.calls_to(M + "track_walk")), "", fu.loc)
        # ---- W5: implicit names.  The tracker pre-assigns a few names by constant (`loop`, `caller`, `self`, `super`)
        # and the macro's own name.  A name may only be treated as assigned where the engine really binds a variable
        # of that name *before* the code in question runs:
        #   - the constant must be a name the interpreter stores (`Context::store(.., "caller", ..)`, the loop
        #     object's "loop" key); `self` / `super` are special only in call position and are plain context lookups
        #     otherwise;
        #   - `loop` is bound for the loop body only: the loop filter runs in a pre-pass without it;
        #   - the macro's name is stored after the macro value is built (its closure is captured first).
        ENGINE_BOUND = {"loop": ("minijinja/src/vm/context.rs", "loop object stored in the loop frame"),
                        "caller": ("minijinja/src/vm/mod.rs", "stored into the macro's frame when called by a call block")}
        ASSIGN = M + "AssignmentTracker::assign"
        tw = prog.fn(M + "track_walk")
        def cstr(f_, op_):
            vs = {o.const.get("str") for o in flow.origins(f_, op_) if o.kind == "const" and "str" in o.const}
            return vs.pop() if len(vs) == 1 else None
        const_assigns = []
        for f in mt:
            for c in f.calls_to(ASSIGN):
                nm = cstr(f, c.args[1])
                if nm is not None:
                    const_assigns.append((f, c, nm))
        ctx.floor("C18.W5 names pre-assigned by constant" + tag, len(const_assigns), 1)
        for f, c, nm in const_assigns:
            bound = False
            if nm in ENGINE_BOUND:
                src_file = ENGINE_BOUND[nm][0]
                import json as _json
                for g in prog.fns.values():
                    if g.loc.f.endswith(src_file) and ('"str": "%s"' % nm) in _json.dumps(g.raw):
                        bound = True
            ctx.ob("C18.W5.pre-assigned-name-is-bound-by-the-engine", "%s%s|%s" % (tag, f.path.split("::")[-1], nm), bound,
                   "the tracker treats `%s` as assigned, but the interpreter never binds a variable of that name (it is "
                   "special in call position only): `{{ %s }}` is a context lookup that is not reported" % (nm, nm),
                   f.where(c.bb))
        # ... and bound on *every* invocation of the construct, not only on some: where the interpreter stores the name
        # under a condition on an Option (`if let Some(caller) = caller { ctx.store("caller", ..) }`), every value that
        # can arrive there (traced across functions) is `Some(..)`, or `None` only where the flag saying that the body
        # does not mention the name is false.  Otherwise a body that mentions the name looks it up in the context.
        STORE = "minijinja::vm::context::Context::store"
        names = {nm for _f, _c, nm in const_assigns}
        nst = 0
        for g in prog.fns.values():
            for c in g.calls_to(STORE):
                if len(c.args) < 4:
                    continue
                nm = cstr(g, c.args[2])
                if nm not in names:
                    continue
                nst += 1
                vo = flow.origins(g, c.args[3])
                cond = [o for o in vo if o.kind == "arg" and o.proj[-2:] == ("as Some", "0")]
                if not cond:
                    continue        # stored unconditionally (or from a value computed here)
                bad = []
                nleaf = 0
                for o in cond:
                    for (lf, lo) in flow.xorigins(prog, g, flow._fake_operand(o.arg, o.proj[:-2])):
                        nleaf += 1
                        if lo.kind == "agg" and lo.rv.get("variant") == "Some":
                            continue
                        if lo.kind == "agg" and lo.rv.get("variant") == "None":
                            gf = flow.guard_facts(prog, lf, lo.bb)
                            if any(x[0] == "local" and x[2] is False and isinstance(x[1], dict) and any(
                                    isinstance(e, dict) and e.get("ty") == "bool" and "n" in e for e in x[1].get("p", []))
                                   for x in gf):
                                continue
                            if _none_is_overwritten_when_flag_set(lf, lo):
                                continue
                            bad.append("%s: None without a flag saying the body does not mention `%s`" % (lf.path.split("::")[-1], nm))
                            continue
                        bad.append("%s: %s may be None" % (lf.path.split("::")[-1],
                                                         lo.call.name if lo.kind == "call" else repr(lo)))
                ctx.ob("C18.W5.pre-assigned-name-is-bound-on-every-invocation", "%s%s|%s" % (tag, g.path.split("::")[-1], nm),
                       nleaf > 0 and not bad,
                       "the tracker treats `%s` as assigned inside the construct, but the interpreter binds it only when a "
                       "value was supplied (%s): a body that mentions `%s` and is invoked without one looks `%s` up in the "
                       "render context, which undeclared_variables() does not report" % (nm, "; ".join(bad) or "no producer found", nm, nm),
                       g.where(c.bb))
        if prog.has_fn("minijinja::vm::Executor::eval_macro"):
            ctx.floor("C18.W5 interpreter stores of pre-assigned names" + tag, nst, 1)
        # `loop`: the interpreter answers a lookup of "loop" from the loop frame only when the loop was started with
        # the with-loop-variable flag.  The tracker assigns `loop` for every loop body, so every loop whose body
        # statements are compiled must be started with that flag set - a constant `true`, or a value computed by the
        # tracker module itself (consistent by construction).  A loop started without it (the filter pre-pass) must
        # be ended before any body statement is compiled.
        SFL, EFL = G + "start_for_loop", G + "end_for_loop"
        if "loop" in names:
            nl = 0
            for c in prog.calls_of(SFL):
                cf = c.fn
                if len(c.args) < 3:
                    continue
                os_ = flow.origins(cf, c.args[1])
                always = bool(os_) and all((o.kind == "const" and str(o.const.get("int")) == "1") or
                                           (o.kind == "call" and o.call.name.startswith(M)) for o in os_)
                if always:
                    nl += 1
                    continue
                ends = {k.bb for k in cf.calls_to(EFL)}
                inside = cfg.reach_from_succs(cf, c.bb, avoid=ends)
                open_body = [k for k in cf.calls_to(G + "compile_stmt") if k.bb in inside]
                nl += 1
                ctx.ob("C18.W5.loop-is-bound-for-the-loop-body", "%s%s|start_for_loop#%d" % (tag, cf.path.split("::")[-1], nl),
                       not open_body,
                       "body statements are compiled inside a loop that is not (always) started with the loop-variable "
                       "flag: a body that mentions `loop` looks it up in the render context, but the tracker treats `loop` "
                       "as assigned in every loop body", cf.where(c.bb))
            ctx.floor("C18.W5 start_for_loop sites" + tag, nl, 2)
            ctx.ob("C18.W5.loop-is-bound-for-the-loop-body", tag + "all-loops", True, "%d sites" % nl, "")
        # implicit names live in the scope of their construct: the pre-assignment happens after the tracker opened a
        # scope for it (in the same function, or in every tracker function that calls it), so the name is forgotten
        # when the construct ends
        PUSHS = M + "AssignmentTracker::push"
        for f, c, nm in const_assigns:
            own = [k for k in f.calls_to(PUSHS) if cfg.dominates(f, k.bb, c.bb)]
            ok_scope = bool(own)
            if not own:
                sites = [k for g in mt if g is not f for k in g.calls_to(f.path)]
                sites = [k for k in sites if k.fn.path != M + "find_macro_closure"]
                ok_scope = bool(sites) and all(any(cfg.dominates(k.fn, p_.bb, k.bb) for p_ in k.fn.calls_to(PUSHS)) for k in sites)
            ctx.ob("C18.W5.pre-assigned-name-is-scoped-to-its-construct", "%s%s|%s" % (tag, f.path.split("::")[-1], nm), ok_scope,
                   "`%s` is pre-assigned outside the scope the tracker opens for the construct: it stays assigned after the "
                   "construct ends, and a later read of a context variable with that name is not reported" % nm, f.where(c.bb))
        STMT = AST + "Stmt"
        sw_ = arms.enum_switches(prog, tw, STMT)
        if sw_:
            regs_ = arms.arm_regions(prog, tw, sw_[0][0], STMT)
            fl_reg = regs_.get("ForLoop", set())
            la = [c for f, c, nm in const_assigns if f is tw and nm == "loop" and c.bb in fl_reg]
            fv = []
            for c in tw.calls():
                if c.bb in fl_reg and c.name in (M + "tracker_visit_expr_opt", M + "tracker_visit_expr"):
                    if any("filter_expr" in o.proj for o in flow.origins(tw, c.args[0])):
                        fv.append(c)
            if la and fv:
                wrong = any(cfg.dominates(tw, a.bb, v.bb) for a in la for v in fv)
                ctx.ob("C18.W5.loop-is-not-assigned-before-the-loop-filter", tag + "ForLoop|loop<-filter_expr", not wrong,
                       "the tracker assigns `loop` before it visits the loop filter; the filter runs in a pre-pass in "
                       "which `loop` is not bound, so `{% for x in xs if loop.index %}` looks `loop` up in the context "
                       "without it being reported", tw.where(la[0].bb))
            if "Macro" in regs_:
                mreg = regs_["Macro"]
                na = [c for c in tw.calls_to(ASSIGN) if c.bb in mreg and any("name" in o.proj for o in flow.origins(tw, c.args[1]))]
                mv = [c for c in tw.calls_to(M + "tracker_visit_macro") if c.bb in mreg]
                cm = prog.fns.get(G + "compile_macro")
                if na and mv and cm is not None:
                    built = cm.calls_to(G + "compile_macro_expression")
                    stores = [c for c in cm.calls() if c.name in (G + "add", G + "add_with_span") and any(
                        o.kind == "agg" and o.rv.get("variant") == "StoreLocal" for o in flow.origins(cm, c.args[1]))]
                    engine_builds_first = bool(built) and bool(stores) and all(cfg.dominates(cm, b.bb, s_.bb) for b in built for s_ in stores)
                    tracker_assigns_first = any(cfg.dominates(tw, a.bb, v.bb) for a in na for v in mv)
                    ctx.ob("C18.W5.macro-name-is-not-assigned-before-its-closure-is-captured", tag + "Macro|name<-body",
                           not (engine_builds_first and tracker_assigns_first),
                           "the engine builds the macro (capturing the free names of its body, which looks them up) before "
                           "it stores the macro under its name, but the tracker assigns the name first: a macro that "
                           "mentions its own name makes the render look that name up in the context unreported",
                           tw.where(na[0].bb))
        # W4: the public entry points report what the walker found - on every path.  A return that does not pass
        # the walker (an "obviously empty" fast path decided from something else than the AST, e.g. the root
        # instruction stream, which does not contain block bodies) omits variables.
        FU = M + "find_undeclared"
        n4 = 0
        for f in prog.fns.values():
            if f.crate != "minijinja" or f.path == FU or not f.calls_to(FU):
                continue
            n4 += 1
            walkers = {c.bb for c in f.calls_to(FU)}
            # the only other way out: the source fails to parse (cannot happen for a compiled template)
            for c in f.calls():
                if c.name.endswith("compiler::parser::parse") or c.name.endswith("::parse_expr"):
                    sp = errflow.ok_err_blocks(f, c)
                    if sp:
                        walkers |= set(sp[1])
            ok4 = cfg.paths_must_pass(f, 0, walkers, f.returns())
            ctx.ob("C18.W4.entry-point-reports-the-walk", tag + f.path, ok4,
                   "a path through %s returns a set that does not come from find_undeclared (and is not the parse-error "
                   "exit): variables read on that path's templates are omitted" % f.path.split("::")[-1], f.loc)
            # and the walker's result is what is returned (not filtered afterwards)
            # and the walker's result is what is returned: the return value derives only from find_undeclared (or the
            # empty set of the parse-error exit), and nothing mutates it on the way
            src = flow.origins(f, {"cp": {"l": 0}})
            names = sorted({(o.call.name if o.kind == "call" else o.kind) for o in src})
            pure = bool(src) and all(o.kind == "call" and (o.call.name == FU or o.call.name.endswith(("HashSet::<T>::new", "HashSet::new", "::default")))
                                     for o in src) and any(o.kind == "call" and o.call.name == FU for o in src)
            holders = set()
            for c in f.calls_to(FU):
                if c.dest is not None and "p" not in c.dest:
                    holders.add(c.dest["l"])
            changed = True
            while changed:
                changed = False
                for bb, i, st in f.all_stmts():
                    if st["k"] == "assign" and "p" not in st["place"] and st["rv"]["k"] == "use":
                        pl = op_place_(st["rv"]["op"])
                        if pl is not None and "p" not in pl and pl["l"] in holders and st["place"]["l"] not in holders:
                            holders.add(st["place"]["l"])
                            changed = True
            mutated = []
            for bb, i, st in f.all_stmts():
                rv = st.get("rv", {})
                if rv.get("k") == "ref" and rv.get("mut") and rv["place"].get("l") in holders and rv["place"].get("l") != 0:
                    mutated.append(f.where(bb))
            ctx.ob("C18.W4.walk-result-is-returned-unfiltered", tag + f.path, pure and not mutated,
                   "the returned set derives from %s%s: the set computed by find_undeclared must be returned as it is"
                   % (names, (" and is mutably borrowed at %s" % mutated) if mutated else ""), f.loc)
        ctx.floor("C18.W4 public entry points of the walker" + tag, n4, 1)
        ia = prog.fn(M + "AssignmentTracker::is_assigned")
        ctx.ob("C18.W3.is_assigned-consults-scopes", tag + ia.path,
               any(c.name.endswith("::any") or c.name.endswith("::contains") for c in ia.calls() + [k for cl in prog.closures_of(ia.path) for k in cl.calls()]),
               "", ia.loc)
        ctx.sample({"node types": len(ct), "example": [repr(e) for e in ce[:5]]})
