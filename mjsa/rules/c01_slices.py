"""C01.P7 — string slicing by byte offset cannot panic on a character boundary.

`&s[a..b]`, `s.split_at(n)` on `str`/`String` panic when an offset is not on a UTF-8 character boundary (or out of
range).  Template source, string values and format strings are attacker-chosen text, so every offset used to slice
them must *come from the text*: a search result (`find`, `memstr`, `char_indices`, `position` ..), a length, a span
/ cursor offset, a sum of those.  What cannot come from the text is an integer *literal* (`[1..]`, `split_at(4)`,
`len - 1`), a quotient/remainder, or a *character* count (a span column): such a component is only sound when the
skipped bytes are known to be ASCII.

Rule: for every str slicing site of minijinja / minijinja-contrib, every literal (>= 1) or `%`,`/`,`*` component of
the offset expression needs
   evidence on the path  — the site is control-dependent on `starts_with` / `ends_with` / `strip_prefix` with an ASCII
                           constant, on `is_char_boundary`, or on a successful checked `str::get(..)` of the same text;
                           or the literal is added to the result of a `find`/`rfind` for an ASCII constant;
   or a reviewed entry   — REVIEWED_SLICES, keyed by function and the normalised offset expression, with the reason
                           the skipped bytes are ASCII.  Changing the expression changes the key.
`str::get(range)` itself is checked and needs nothing.
"""
from .. import cfg, flow
from ..facts import op_place, const_int

SLICERS = {
    "core::str::traits::<impl core::ops::index::Index<I> for str>::index": 1,
    "core::str::traits::<impl core::ops::index::IndexMut<I> for str>::index_mut": 1,
    "<alloc::string::String as core::ops::index::Index<I>>::index": 1,
    "<alloc::string::String as core::ops::index::IndexMut<I>>::index_mut": 1,
    "core::str::<impl str>::split_at": 1,
    "core::str::<impl str>::split_at_mut": 1,
    "core::str::<impl str>::get_unchecked": 1,
    "core::str::<impl str>::slice_unchecked": 1,
}

REVIEWED_SLICES = {
    "minijinja::compiler::lexer::Tokenizer::eat_string|Range(1,(call:len-1))":
        "s is the advanced token `delim .. delim`; both ends were compared with the ASCII quote byte before advance()",
    "minijinja::compiler::lexer::Tokenizer::eat_number|RangeFrom(((..+..)|call:count+1))":
        "num_len counts ASCII digit/sign bytes matched one by one and the byte at num_len was just matched as b'.'",
    "minijinja::formatting::parse_till|Range(call:position,(call:position-1))":
        "the cursor stopped right after the one-byte ASCII closing delimiter it just matched",
    "minijinja::formatting::FormatSpec::group|Range(0,(call:len%arg3))": "digits is a run of ASCII digits",
    "minijinja::formatting::FormatSpec::group|RangeFrom((call:len%arg3))": "digits is a run of ASCII digits",
}

ASCII_TESTS = ("::starts_with", "::ends_with", "::strip_prefix", "::strip_suffix", "::is_char_boundary")
FINDERS = ("::find", "::rfind", "::position", "::rposition")


def expr(f, op, depth=0):
    """normalised offset expression of an operand: a '|'-joined set of alternatives"""
    out = set()
    for o in flow.origins(f, op):
        if o.kind == "call":
            out.add("call:" + o.call.name.split("::")[-1])
        elif o.kind == "const":
            out.add(str(o.const.get("int", o.const.get("d"))))
        elif o.kind == "arg":
            out.add("arg%d" % o.arg + ("." + ".".join(x for x in o.proj if not x.startswith("as ") and not x.isdigit())
                                       if any(not x.startswith("as ") and not x.isdigit() for x in o.proj) else ""))
        elif o.kind == "bin":
            sym = {"Add": "+", "AddWithOverflow": "+", "AddUnchecked": "+", "Sub": "-", "SubWithOverflow": "-",
                   "SubUnchecked": "-", "Mul": "*", "MulWithOverflow": "*", "Rem": "%", "Div": "/"}.get(o.rv["op"], o.rv["op"])
            if depth < 2:
                out.add("(%s%s%s)" % (expr(f, o.rv["a"], depth + 1), sym, expr(f, o.rv["b"], depth + 1)))
            else:
                out.add("(..%s..)" % sym)
        elif o.kind == "agg":
            nm = (o.rv.get("adt") or "").split("::")[-1]
            if depth < 2:
                out.add("%s(%s)" % (nm, ",".join(expr(f, x, depth + 1) for x in o.rv["ops"])))
            else:
                out.add(nm + "(..)")
        else:
            out.add(o.kind)
    return "|".join(sorted(out))


def literal_components(f, op, depth=0, seen=None):
    """[(what, origin, partner operand)] literal / quotient components of an offset expression"""
    out = []
    for o in flow.origins(f, op):
        if any(("col" in x.lower().split("_") or x.lower().endswith("_col") or x.lower() in ("col", "column", "line"))
               for x in o.proj if isinstance(x, str)):
            # a character column / line number is a count of characters, not a byte offset
            out.append(("character column `%s`" % ".".join(x for x in o.proj if isinstance(x, str)), o, None))
            continue
        if o.kind == "call" and depth < 4 and o.call.name.split("::")[-1] in ("min", "max", "saturating_sub", "saturating_add", "clamp"):
            for a in o.call.args:
                out += literal_components(f, a, depth + 1)
            continue
        if o.kind == "cast" and depth < 4:
            out += literal_components(f, o.rv["op"], depth + 1)
            continue
        if o.kind == "const":
            v = o.const.get("int")
            if v is not None and int(v) >= 1 and depth > 0:
                out.append(("literal %s" % v, o, None))
            elif v is not None and int(v) >= 1 and depth == 0:
                out.append(("literal %s" % v, o, None))
        elif o.kind == "bin" and depth < 4:
            if o.rv["op"] in ("Rem", "Div", "Mul", "MulWithOverflow"):
                out.append(("arithmetic %s" % o.rv["op"], o, None))
                continue
            for side, other in (("a", "b"), ("b", "a")):
                for w, oo, _ in literal_components(f, o.rv[side], depth + 1):
                    out.append((w, oo, o.rv[other]))
        elif o.kind == "agg" and depth < 4:
            for x in o.rv["ops"]:
                out += literal_components(f, x, depth + 1)
    return out


def _ascii_const(f, op):
    """the operand is a char / &str constant made of ASCII only"""
    s = flow.const_str(op, f)
    if s is not None:
        return all(ord(ch) < 128 for ch in s) and len(s) > 0
    v = const_int(op)
    if v is not None:
        return 0 <= v < 128
    cs = flow.const_char_set(f, op)
    if cs:
        # a set of characters (`find(&['<', '>'][..])`): whichever matched is one byte long when all are ASCII
        return all(0 <= ch < 128 for ch in cs)
    for o in flow.origins(f, op):
        if o.kind == "const":
            if "str" in o.const:
                if not all(ord(ch) < 128 for ch in o.const["str"]):
                    return False
            elif "int" in o.const:
                if not 0 <= int(o.const["int"]) < 128:
                    return False
            else:
                return False
        else:
            return False
    return bool(flow.origins(f, op))


def _byte_classifier(prog, g):
    """for a crate function (Option<u8> / u8) -> enum that switches on the byte: (variants produced only for ASCII byte
    constants, variants of the default arm); None when the function is not of that shape"""
    if g is None or g.kind == "closure" or g.argc != 1:
        return None
    sws = [bb for bb in sorted(g.reachable) if g.term(bb)["k"] == "switch" and g.term(bb).get("ty") == "u8"]
    if len(sws) != 1:
        return None
    t = g.term(sws[0])

    def variants_from(x, avoid):
        out = set()
        for bb in cfg.reach_from(g, x, avoid=avoid):
            for st in g.stmts(bb):
                rv = st.get("rv")
                if st["k"] == "assign" and st["place"] == {"l": 0} and rv and rv["k"] == "agg" and "variant" in rv:
                    out.add(rv["variant"])
        return out
    targets = {x for _, x in t["arms"]} | {t["otherwise"]}
    ascii_vs, other_vs = set(), set()
    for v, x in t["arms"]:
        vs = variants_from(x, targets - {x})
        if v.isdigit() and int(v) < 128:
            ascii_vs |= vs
        else:
            other_vs |= vs
    default_vs = variants_from(t["otherwise"], targets - {t["otherwise"]})
    # also the None side of the Option
    for bb in sorted(g.reachable):
        for st in g.stmts(bb):
            rv = st.get("rv")
            if st["k"] == "assign" and st["place"] == {"l": 0} and rv and rv["k"] == "agg" and "variant" in rv \
                    and rv["variant"] not in ascii_vs:
                default_vs.add(rv["variant"])
    return ascii_vs - other_vs - default_vs, default_vs | other_vs


def unprotected_blocks(prog, f):
    """blocks reachable from the entry when every edge taken on ASCII / boundary evidence is removed.  Evidence edges:
    the true side of starts_with / ends_with / strip_prefix (ASCII constant) and is_char_boundary, the Some side of a
    checked str::get / strip_prefix, and - to a fixpoint - the true side of a `matches!`-style bool whose `true`
    assignments all sit in protected blocks.  Handles `a || b` (either edge protects) and `a && b`."""
    removed = set()
    descr = {}
    for sb in sorted(f.reachable):
        t = f.term(sb)
        if t["k"] != "switch":
            continue
        cd = flow.cond_of(f, sb)
        if cd.kind == "call" and cd.call.name.endswith(ASCII_TESTS):
            if cd.call.name.endswith("::is_char_boundary") or (len(cd.call.args) > 1 and _ascii_const(f, cd.call.args[1])):
                for e in cfg.bool_edges(f, sb, not cd.neg):
                    removed.add(e)
                    descr[e] = "%s at %s" % (cd.call.name.split("::")[-1], f.tloc(sb))
        elif cd.kind == "discr" and cd.place is not None and cd.adt == "core::option::Option":
            src = flow.origins(f, {"cp": {"l": cd.place["l"]}})
            if src and all(o.kind == "call" and o.call.name in (
                    "core::str::<impl str>::get", "core::str::<impl str>::strip_prefix",
                    "core::str::<impl str>::strip_suffix") for o in src):
                for v, x in t["arms"]:
                    if v == "1":
                        removed.add((sb, x))
                        descr[(sb, x)] = "checked %s at %s" % (src[0].call.name.split("::")[-1], f.tloc(sb))
                if not any(v == "1" for v, _ in t["arms"]):
                    removed.add((sb, t["otherwise"]))
                    descr[(sb, t["otherwise"])] = "checked %s at %s" % (src[0].call.name.split("::")[-1], f.tloc(sb))
    # a marker decoded from the first byte (`Whitespace::from_byte(s.as_bytes().first().copied())`): on the side where the
    # decoded value is one the classifier produces for ASCII bytes only, byte 0 is ASCII and offset 1 is a boundary
    for sb in sorted(f.reachable):
        t = f.term(sb)
        if t["k"] != "switch":
            continue
        cd = flow.cond_of(f, sb)
        if cd.kind == "call" and cd.call.name.endswith(("PartialEq>::eq", "PartialEq>::ne", "PartialEq::eq", "PartialEq::ne")):
            ee = flow.enum_eq(f, cd)
            if ee is None:
                continue
            var, others = ee
            srcs = [o for o in others if o.kind == "call"]
            if not srcs or len(srcs) != len([o for o in others if o.kind != "const"]):
                continue
            ok_all = True
            for o in srcs:
                tab = _byte_classifier(prog, prog.fns.get(o.call.name))
                first = o.call.args and any(q.kind == "call" and q.call.name.rsplit("::", 1)[-1] in ("first", "get", "copied", "next")
                                            for q in flow.origins(f, o.call.args[0], through_calls=lambda k: 0 if k.name.endswith(("::copied", "::cloned")) else None))
                if tab is None or not first:
                    ok_all = False
                    continue
                ascii_vs, default_vs = tab
                is_ne = cd.call.name.endswith("::ne")
                if is_ne and not (var in default_vs and len(default_vs) == 1):
                    ok_all = False
                if not is_ne and var not in ascii_vs:
                    ok_all = False
            if ok_all:
                for e in cfg.bool_edges(f, sb, not cd.neg):        # the side on which the call itself answers true
                    removed.add(e)
                    descr[e] = "a marker decoded from an ASCII first byte (%s)" % f.tloc(sb)
    for _ in range(8):
        reach = cfg.reach_from(f, 0, removed_edges=removed)
        grew = False
        for sb in sorted(f.reachable):
            t = f.term(sb)
            if t["k"] != "switch" or t.get("ty") != "bool":
                continue
            p = op_place(t["discr"])
            if p is None or "p" in p:
                continue
            defs = flow.whole_defs(f, p["l"])
            if not defs or not all(d.kind == "stmt" and d.rv["k"] == "use" and const_int(d.rv["op"]) in (0, 1) for d in defs):
                continue
            trues = [d.bb for d in defs if const_int(d.rv["op"]) == 1]
            if trues and all(b not in reach for b in trues):
                for e in cfg.bool_edges(f, sb, True):
                    if e not in removed:
                        removed.add(e)
                        descr[e] = "a match on checked text (%s)" % f.tloc(sb)
                        grew = True
        if not grew:
            break
    return cfg.reach_from(f, 0, removed_edges=removed), removed, descr


_UNPROT = {}


def path_evidence(prog, f, bb):
    key = (id(prog), f.path)
    if key not in _UNPROT:
        _UNPROT[key] = unprotected_blocks(prog, f)
    reach, removed, descr = _UNPROT[key]
    if bb in reach:
        return None
    return "the site is only reached over " + " / ".join(sorted(set(descr.values())))[:200]


def finder_evidence(f, partner):
    """literal added to the result of find/rfind for an ASCII needle (the needle is `literal` bytes long at most)"""
    if partner is None:
        return None
    for o in flow.origins(f, partner):
        if o.kind == "call" and o.call.name.endswith(FINDERS) and len(o.call.args) > 1 and _ascii_const(f, o.call.args[1]):
            return "offset of an ASCII needle found by %s" % o.call.name.split("::")[-1]
    return None


def needle_match_evidence(f, idx_op):
    """the offset is `P + memstr(&bytes[P..], needle.as_bytes()) (+ needle.len())`: the absolute position of a `str` needle
    found by a byte search in the bytes of a `str` (plus the needle's length).  UTF-8 is self-synchronising - the first byte
    of a valid needle is never a continuation byte - so a match starts and ends on character boundaries wherever the search
    started (even one byte past a rejected candidate)."""
    def split_add(op):
        out = []
        for o in (flow.origins(f, op) if "c" not in op else []):
            if o.kind == "bin" and o.rv["op"] in ("Add", "AddWithOverflow", "AddUnchecked"):
                out.append((o.rv["a"], o.rv["b"]))
        return out

    def is_match_sum(a, b):
        for (p_, r_) in ((a, b), (b, a)):
            if "c" in r_ or "c" in p_:
                continue
            for o in flow.origins(f, r_):
                if o.kind == "call" and o.call.name.rsplit("::", 1)[-1] in ("memstr",) and len(o.call.args) == 2:
                    nd = [q for q in flow.origins(f, o.call.args[1]) if q.kind == "call" and q.call.name.endswith("str>::as_bytes")]
                    hs = flow.origins(f, o.call.args[0], through_calls=lambda k: 0 if k.name.endswith(("::index", "::deref")) else None)
                    if nd and any(q.kind == "call" and (q.call.name.endswith("::rest_bytes") or q.call.name.endswith("str>::as_bytes")) for q in hs):
                        return True
        return False
    for (a, b) in split_add(idx_op):
        if is_match_sum(a, b):
            return "absolute position of a str needle found by memstr (UTF-8 is self-synchronising)"
        # (P + match) + needle.len()
        for (x, y) in ((a, b), (b, a)):
            if "c" in y:
                continue
            if any(o.kind == "call" and o.call.name.endswith("str>::len") for o in flow.origins(f, y)):
                for (a2, b2) in split_add(x):
                    if is_match_sum(a2, b2):
                        return "position just behind a str needle found by memstr (UTF-8 is self-synchronising)"
    return None


def _range_start(f, idx):
    """the start operand of a `a..` / `a..b` range expression (or the operand itself for split_at)"""
    for o in (flow.origins(f, idx) if "c" not in idx else []):
        if o.kind == "agg" and (o.rv.get("adt") or "").startswith("core::ops::range::Range") and o.rv["ops"]:
            return o.rv["ops"][0]
    return idx


def check_str_slices(ctx, prog, rule="C01.P7.slice-offset-comes-from-the-text", files=None, floor=40, tag=""):
    n = 0
    for f in prog.fns.values():
        if f.crate not in ("minijinja", "minijinja_contrib"):
            continue
        if files is not None and not f.loc.f.endswith(files):
            continue
        for c in f.calls():
            if c.name not in SLICERS:
                continue
            n += 1
            idx = c.args[SLICERS[c.name]]
            comps = literal_components(f, idx)
            e = expr(f, idx)
            key = "%s|%s" % (f.path, e)
            if not comps:
                ctx.count("C01.P7 slicing sites with text-derived offsets")
                continue
            reasons = []
            bad = []
            for what, o, partner in comps:
                ev = path_evidence(prog, f, c.bb) or finder_evidence(f, partner) or needle_match_evidence(f, _range_start(f, idx))
                if ev:
                    reasons.append("%s: %s" % (what, ev))
                elif key in REVIEWED_SLICES:
                    reasons.append("%s: reviewed - %s" % (what, REVIEWED_SLICES[key]))
                else:
                    bad.append(what)
            msg = ("accepted: " + "; ".join(reasons)) if not bad else (
                "this string is sliced at an offset containing %s with no evidence that the skipped bytes are ASCII "
                "(no starts_with/ends_with/strip_prefix with an ASCII constant, is_char_boundary or checked str::get "
                "on every path to the site; not a reviewed site): a multi-byte character at that position panics"
                % ", ".join(sorted(set(bad))))
            ctx.ob(rule, tag + key, not bad, msg, f.where(c.bb))
    if floor:
        ctx.floor("%s str slicing sites%s" % (rule.split(".")[1], tag), n, floor)
    return n
