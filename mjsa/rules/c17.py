"""C17 — the path loader never reads outside its base directory.

Decided structurally (Unix path semantics assumed):
 L1  who-may-call: std::fs::* is called only inside the closure returned by `path_loader`, and the path it reads is
     the `Some` payload of `safe_join`.
 L2  in `safe_join` the result is `base.to_path_buf()` mutated only by `PathBuf::push(seg)`, every `seg` comes from
     `template.split('/')` (so it contains no separator and cannot be absolute), and every push is guarded by a
     dominating string predicate on that same segment which the string ".." fails (constant evaluation of the
     predicate on ".."), so a `..` component can never be appended.
 L3  the loader maps an I/O error to "missing" (Ok(None)) only under `err.kind() == NotFound`.
"""
from .. import cfg, flow
from ..facts import op_place, CheckerBroken

SAFE_JOIN = "minijinja::loader::safe_join"
PATH_LOADER = "minijinja::loader::path_loader"
PUSH = "std::path::PathBuf::push"
STR = "core::str::<impl str>::"


def eval_pred_on(call, text, fn):
    """value of a recognised string predicate applied to the constant `text`; None when not recognised"""
    n = call.name
    args = call.args
    if n.startswith(STR):
        m = n[len(STR):]
        if m == "is_empty":
            return text == ""
        if len(args) >= 2:
            a = args[1]
            c = a.get("c")
            needle = None
            if c is not None:
                if c.get("ty") == "char" and "int" in c:
                    needle = chr(int(c["int"]))
                else:
                    needle = flow.const_str(a, fn)
            if needle is None:
                return None
            if m == "starts_with":
                return text.startswith(needle)
            if m == "ends_with":
                return text.endswith(needle)
            if m == "contains":
                return needle in text
        return None
    if n.endswith("::eq") or n.endswith("::ne"):
        # str equality against a constant
        vals = []
        for a in args:
            s = flow.const_str(a, fn)
            if s is None and "c" not in a:
                # a reference to a constant &str held in a local
                for o in flow.origins(fn, a):
                    if o.kind == "const":
                        s2 = flow.const_str({"c": o.const}, fn)
                        if s2 is not None:
                            s = s2
            vals.append(s)
        consts = [v for v in vals if v is not None]
        if len(consts) == 1 and len(args) == 2:
            r = consts[0] == text
            return r if n.endswith("::eq") else (not r)
    return None


def check_safe_join(ctx, prog, fn_path, floor=True):
    sj = prog.fn(fn_path)
    pushes = sj.calls_to(PUSH)
    # every call that takes the path being built by `&mut` (push, extend, set_file_name, pop ...)
    growers = []
    for c in sj.calls():
        if not c.args:
            continue
        p0 = op_place(c.args[0])
        if p0 is None or "p" in p0:
            continue
        ty = sj.locals[p0["l"]].get("s", "")
        if ty.startswith("&mut") and "std::path::PathBuf" in ty:
            growers.append(c)
    if floor:
        ctx.floor("C17.L2 sites that grow the joined path in safe_join", len(growers), 1)
    # the returned PathBuf: every `&mut` use must be a push
    ret_roots = set()
    for bb, i, s in sj.all_stmts():
        if s["k"] == "assign" and s["place"] == {"l": 0} and s["rv"]["k"] == "agg" and s["rv"].get("variant") == "Some":
            for o in flow.origins(sj, s["rv"]["ops"][0]):
                ret_roots.add(o.key())
                ok = o.kind == "call" and o.call.name == "std::path::Path::to_path_buf" and any(
                    b.kind == "arg" and b.arg == 1 for b in flow.origins(sj, o.call.args[0]))
                ctx.ob("C17.L2.base", "%s|returned path starts from the base argument" % fn_path, ok,
                       "the Some(..) payload originates from %r" % o, sj.where(bb))
    if not ret_roots and floor:
        ctx.ob("C17.L2.base", "%s|returned path starts from the base argument" % fn_path, False,
               "%s grows a path but does not return `Some(path)` built from `base.to_path_buf()`: the path that is read is "
               "not a fresh copy of the base directory extended by guarded segments (a shared or caller-supplied buffer "
               "can drift away from the base between lookups)" % fn_path.split("::")[-1], sj.loc)
    for c in growers:
        # any other mutator of the path: its components are not the guarded segment
        if c.name != PUSH:
            ctx.ob("C17.L2.mutator", "%s|%s" % (fn_path, c.name.split("::")[-1]), False,
                   "the joined path is also changed by %s: the components it appends (or removes) are not the "
                   "`/`-separated segment that the `..`/hidden/backslash guard inspected, so a `..` can be smuggled "
                   "in (e.g. behind a backslash)" % c.name, sj.where(c.bb))
    n = 0
    for c in pushes:
        n += 1
        seg = c.args[1]
        seg_or = flow.origins(sj, seg)
        # segment source: Iterator::next on Split<char> built by str::split(template, '/')
        src_ok = False
        detail = "segment origin %r" % seg_or
        for o in seg_or:
            if o.kind == "call" and o.call.name.endswith("::next") and "Split<" in o.call.name:
                it = o.call.args[0]
                for o2 in flow.origins(sj, it, through_calls=lambda k: 0 if k.name.endswith("::into_iter") else None):
                    if o2.kind == "call" and o2.call.name == STR + "split":
                        sep = o2.call.args[1].get("c", {})
                        if sep.get("ty") == "char" and sep.get("int") == "47":
                            src_ok = True
                        else:
                            detail = "split separator is %s, not '/'" % sep.get("d")
        ctx.ob("C17.L2.segment-source", "%s|push#%d segment comes from split('/')" % (fn_path, n), src_ok, detail,
               sj.where(c.bb))
        # guard excluding ".."
        seg_keys = {o.key() for o in seg_or}
        excluded = False
        seen = []
        for (s, taken) in flow.guards(sj, c.bb):
            cd = flow.cond_of(sj, s)
            if cd.kind != "call" or not cd.call.args:
                continue
            recv = {o.key() for o in flow.origins(sj, cd.call.args[0])}
            other = {o.key() for a in cd.call.args[1:] for o in flow.origins(sj, a)} if len(cd.call.args) > 1 else set()
            if not ((recv | other) & seg_keys):
                continue
            v = eval_pred_on(cd.call, "..", sj)
            side = flow.bool_true_labels(taken)
            seen.append((cd.call.name, v, side))
            if v is None or side is None:
                continue
            if (v != cd.neg) != side:
                excluded = True
        ctx.ob("C17.L2.dotdot-guard", "%s|push#%d cannot append '..'" % (fn_path, n), excluded,
               "guards on the segment (predicate, value on '..', side the push is on): %s" % seen, sj.where(c.bb))
        ctx.sample({"rule": "C17.L2", "push": str(c.loc), "guards": [str(x) for x in seen]})
    return n


def joiners(prog):
    """the functions of the loader module that build the path to read: found by what they do (they push onto a
    PathBuf), not by name"""
    out = []
    for f in prog.fns.values():
        if f.kind != "closure" and f.loc.f.endswith(("minijinja/src/loader.rs", "controls/src/c17.rs")) and f.calls_to(PUSH):
            out.append(f.path)
    if SAFE_JOIN in prog.fns and SAFE_JOIN not in out:
        out.append(SAFE_JOIN)
    return sorted(out)


def check_fs_calls(ctx, prog, allowed_root, floor=True):
    n = 0
    inside = 0
    for f in prog.fns.values():
        for c in f.calls():
            nm = c.path or ""
            if c.krate == "std" and nm.startswith("std::fs::"):
                n += 1
                ok = f.root == allowed_root and f.kind == "closure"
                ctx.ob("C17.L1.who-may-call", "%s|%s" % (f.path, nm), ok,
                       "file-system access outside the path loader closure" if not ok else "", f.where(c.bb))
                if ok:
                    inside += 1
                    # the path argument is the Some payload of safe_join
                    good = False
                    os_ = flow.origins(f, c.args[0]) if c.args else []
                    for o in os_:
                        if o.kind == "call" and o.call.name in joiners(prog) and "as Some" in o.proj:
                            good = True
                    ctx.ob("C17.L1.path-from-safe_join", "%s|%s" % (f.path, nm), good and len(os_) == 1,
                           "path argument origins: %r" % os_, f.where(c.bb))
                    # ... and it is used as the join returned it: nothing in the loader takes the path by `&mut`
                    muts = []
                    for bb_, i_, st_ in f.all_stmts():
                        rv_ = st_.get("rv", {})
                        if rv_.get("k") == "ref" and rv_.get("mut") and "std::path::PathBuf" in f.locals[rv_["place"]["l"]].get("s", ""):
                            muts.append(f.where(bb_))
                    ctx.ob("C17.L1.joined-path-is-not-modified", "%s|%s" % (f.path, nm), not muts,
                           "the loader borrows the joined path mutably (%s): components can be added or removed after the "
                           "per-segment guard ran" % muts[:3], f.where(c.bb))
    if floor:
        ctx.floor("C17.L1 fs call sites inside the loader", inside, 1)
    return n


def check_notfound(ctx, prog, floor=True):
    cl = [f for f in prog.closures_of(PATH_LOADER)]
    ctx.need(cl or not floor, "C17: path_loader has no closure")
    n = 0
    for f in cl:
        for bb, i, s in f.all_stmts():
            rv = s.get("rv", {})
            if s["k"] == "assign" and rv.get("k") == "agg" and rv.get("adt") == "core::option::Option" and rv.get("variant") == "None":
                # is this None returned as Ok(None)?  (the only Option the closure builds)
                n += 1
                ok = False
                why = []
                for (sb, taken) in flow.guards(f, bb):
                    cd = flow.cond_of(f, sb)
                    if cd.kind == "discr":
                        # switch on the discriminant of safe_join's result, not the Some arm
                        os_ = flow.origins(f, {"cp": cd.place})
                        if any(o.kind == "call" and o.call.name == SAFE_JOIN for o in os_) and "1" not in taken:
                            ok = True
                            why.append("safe_join returned None")
                    if cd.kind == "call" and cd.call.name.endswith("ErrorKind as core::cmp::PartialEq>::eq"):
                        var = None
                        for a in cd.call.args:
                            for o in flow.origins(f, a):
                                if o.kind == "const":
                                    rvv = flow.promoted_rvalue(f, o.const)
                                    if rvv is not None and rvv.get("k") == "agg":
                                        var = rvv.get("variant")
                        side = flow.bool_true_labels(taken)
                        kind_of_read = any(
                            o.kind == "call" and o.call.name == "std::io::error::Error::kind"
                            for a in cd.call.args for o in flow.origins(f, a))
                        if var == "NotFound" and side is True and not cd.neg and kind_of_read:
                            ok = True
                            why.append("err.kind() == NotFound")
                        else:
                            why.append("compared with %s on side %s" % (var, side))
                ctx.ob("C17.L3.only-notfound-is-missing", "%s|None#%d" % (f.path, n), ok,
                       "`None` (template missing) is produced under: %s" % (why or "no recognised condition"),
                       f.where(bb))
    if floor:
        ctx.floor("C17.L3 None results in the loader", n, 1)


def run(ctx):
    ctx.explain("C17: who-may-call rule for std::fs (only the path_loader closure, on the Some payload of safe_join); "
                "dominance + constant evaluation of the guard predicates of safe_join on the string '..' for every "
                "PathBuf::push; the segment source must be split('/'); NotFound is the only I/O error mapped to "
                "'missing'.  Decides confinement of the joined path on Unix for every template name; does not "
                "model symlinks (excluded by the property) or Windows prefixes.")
    ctx.assume("Unix path semantics: a relative component without '/' other than '..' cannot leave the base")
    ctx.assume("std::path::PathBuf::push appends a relative component (std semantics trusted)")
    for cfgname in ctx.configs():
        prog = ctx.program(cfgname)
        check_fs_calls(ctx, prog, PATH_LOADER)
        js = [j for j in joiners(prog) if j.startswith("minijinja::")]
        ctx.ob("C17.L2.path-is-built-by-a-guarded-join", "loader", bool(js),
               "no function of the loader module builds the path segment by segment (PathBuf::push): the template name "
               "reaches the file system without the per-segment guard", "")
        for j in js:
            check_safe_join(ctx, prog, j)
        check_notfound(ctx, prog)
        ctx.count("configs")
    # positive controls: each zero-count rule must fire on /verif/controls
    cprog = ctx.controls
    sub = ctx.fresh()
    check_fs_calls(sub, cprog, PATH_LOADER, floor=False)
    ctx.control("C17.L1", any(not o[2] for o in sub.obligations if o[0] == "C17.L1.who-may-call"))
    sub = ctx.fresh()
    check_safe_join(sub, cprog, "mjsa_controls::c17::weak_join", floor=False)
    ctx.control("C17.L2", any(not o[2] for o in sub.obligations if o[0] == "C17.L2.dotdot-guard"))
