"""C17 — the path loader never reads outside its base directory.

Decided structurally (Unix path semantics assumed):
 L1  who-may-call: std::fs::* is called only inside the closure returned by `path_loader`, and the path it reads is
     the `Some` payload of `safe_join`.
 L2  in `safe_join` the result is `base.to_path_buf()` mutated only by `PathBuf::push(seg)`, every `seg` comes from
     `template.split('/')` (so it contains no separator and cannot be absolute), and every push is guarded by a
     dominating string predicate on that same segment which the string ".." fails (constant evaluation of the
     predicate on ".."), so a `..` component can never be appended.
 L3  the loader maps an I/O error to "missing" (Ok(None)) only under `err.kind() == NotFound`.
"""
from .. import cfg, flow, inline, combinators
from ..facts import op_place, CheckerBroken

SAFE_JOIN = "minijinja::loader::safe_join"
PATH_LOADER = "minijinja::loader::path_loader"
PUSH = "std::path::PathBuf::push"
STR = "core::str::<impl str>::"


def _is_bytes_of_str(fn, op):
    return any(o.kind == "call" and o.call.name == STR + "as_bytes" for o in flow.origins(fn, op))


def _promoted_byte(fn, op):
    """the one byte / char constant an operand refers to (directly, or inside a promoted `&b'x'` / `Some(&b'x')`)"""
    from ..facts import norm_path
    for o in flow.origins(fn, op):
        if o.kind != "const" or o.const is None:
            continue
        c = o.const
        if "int" in c and c.get("ty") in ("u8", "char"):
            return int(c["int"])
        if "promoted" in c:
            owner = fn
            if c.get("named") and fn.prog.fns.get(norm_path(c["named"])) is not None:
                owner = fn.prog.fns[norm_path(c["named"])]
            pr = owner.raw.get("promoted", [])
            if c["promoted"] < len(pr):
                ints = [int(st["rv"]["op"]["c"]["int"]) for b in pr[c["promoted"]]["blocks"] for st in b["s"]
                        if st["k"] == "assign" and st["rv"]["k"] == "use" and "c" in st["rv"]["op"] and "int" in st["rv"]["op"]["c"]
                        and st["rv"]["op"]["c"].get("ty") in ("u8", "char")]
                if len(ints) == 1:
                    return ints[0]
    return None


def eval_pred_on(call, text, fn, prog=None, depth=0):
    """value of a recognised string predicate applied to the constant `text`; None when not recognised"""
    n = call.name
    args = call.args
    if prog is not None and n in prog.fns and prog.fns[n].kind != "closure" and len(args) == 1 and \
            prog.fns[n].locals[0].get("s") == "bool":
        # a predicate of the program itself (`is_forbidden_segment(segment)`)
        return eval_fn_on(prog, prog.fns[n], text, depth)
    if n.startswith(STR):
        m = n[len(STR):]
        if m == "is_empty":
            return text == ""
        if len(args) >= 2:
            a = args[1]
            c = a.get("c")
            needle = None
            if c is not None:
                if c.get("ty") == "char" and "int" in c:
                    needle = chr(int(c["int"]))
                else:
                    needle = flow.const_str(a, fn)
            if needle is None:
                return None
            if m == "starts_with":
                return text.startswith(needle)
            if m == "ends_with":
                return text.endswith(needle)
            if m == "contains":
                return needle in text
        return None
    if n == "core::slice::<impl [T]>::contains" and len(args) == 2:
        b = _promoted_byte(fn, args[1])
        if b is not None and _is_bytes_of_str(fn, args[0]):
            return b in text.encode()
        return None
    if n.endswith("Option<T> as core::cmp::PartialEq>::eq") and len(args) == 2:
        # `bytes.first() == Some(&b'.')` / `bytes.last() == Some(&b'x')`
        for i_, j_ in ((0, 1), (1, 0)):
            pick = None
            for o in flow.origins(fn, args[i_]):
                if o.kind == "call" and o.call.name in ("core::slice::<impl [T]>::first", "core::slice::<impl [T]>::last") \
                        and _is_bytes_of_str(fn, o.call.args[0]):
                    pick = o.call.name.split("::")[-1]
            b = _promoted_byte(fn, args[j_])
            if pick is not None and b is not None:
                data = text.encode()
                return bool(data) and (data[0] if pick == "first" else data[-1]) == b
        return None
    if n.endswith("::eq") or n.endswith("::ne"):
        # str equality against a constant
        vals = []
        for a in args:
            s = flow.const_str(a, fn)
            if s is None and "c" not in a:
                # a reference to a constant &str held in a local
                for o in flow.origins(fn, a):
                    if o.kind == "const":
                        s2 = flow.const_str({"c": o.const}, fn)
                        if s2 is not None:
                            s = s2
            vals.append(s)
        consts = [v for v in vals if v is not None]
        if len(consts) == 1 and len(args) == 2:
            r = consts[0] == text
            return r if n.endswith("::eq") else (not r)
    return None



def eval_fn_on(prog, g, text, depth=0):
    """value of a program predicate `fn(&str) -> bool` on the constant `text`: its CFG is walked with the recognised
    string predicates on its parameter evaluated on `text`; None when something on the way is not recognised"""
    if depth > 2 or g is None or g.argc < 1:
        return None
    env = {}
    bb = 0
    for _ in range(200):
        for st in g.stmts(bb):
            if st["k"] != "assign" or "p" in st["place"]:
                continue
            rv = st["rv"]
            l = st["place"]["l"]
            if rv["k"] == "use":
                c = rv["op"].get("c")
                if c is not None and "int" in c:
                    env[l] = bool(int(c["int"]))
                else:
                    p = op_place(rv["op"])
                    if p is not None and "p" not in p and p["l"] in env:
                        env[l] = env[p["l"]]
                    else:
                        env.pop(l, None)
            elif rv["k"] == "un" and rv.get("op") == "Not":
                p = op_place(rv["a"])
                if p is not None and p["l"] in env:
                    env[l] = not env[p["l"]]
                else:
                    env.pop(l, None)
            else:
                env.pop(l, None)
        t = g.term(bb)
        k = t["k"]
        if k == "return":
            return env.get(0)
        if k == "goto" or k == "drop":
            bb = t["t"]
            continue
        if k == "call":
            c = next((x for x in g.calls() if x.bb == bb), None)
            if c is None or "t" not in t:
                return None
            v = None
            if c.args and any(o.kind == "arg" and o.arg == g.argc - 0 or o.kind == "arg" for o in flow.origins(g, c.args[0])):
                v = eval_pred_on(c, text, g, prog, depth + 1)
            d = t.get("dest")
            if d is not None and "p" not in d:
                if v is not None:
                    env[d["l"]] = v
                else:
                    env.pop(d["l"], None)
            bb = t["t"]
            continue
        if k == "switch":
            p = op_place(t["discr"])
            if p is None or "p" in p or p["l"] not in env:
                return None
            val = "1" if env[p["l"]] else "0"
            listed = {x: y for x, y in t["arms"]}
            bb = listed.get(val, t["otherwise"])
            continue
        return None
    return None



def _split_of(sj, op):
    """(origin keys of the string, separator) when the operand is `str::split(string, '<char>')`, else None"""
    for o in flow.origins(sj, op, through_calls=lambda k: 0 if k.name.endswith("::into_iter") else None):
        if o.kind == "call" and o.call.name == STR + "split" and len(o.call.args) > 1:
            sep = o.call.args[1].get("c", {})
            if sep.get("ty") == "char" and "int" in sep:
                return frozenset(x.key() for x in flow.origins(sj, o.call.args[0])), sep["int"]
    return None


def _extend_of_validated_split(prog, sj, c):
    if not c.name.endswith("::extend") or len(c.args) < 2:
        return False
    what = _split_of(sj, c.args[1])
    if what is None or what[1] != "47":
        return False
    for (sb, taken) in flow.guards(sj, c.bb):
        cd = flow.cond_of(sj, sb)
        if cd.kind != "call" or not cd.call.name.endswith("Iterator::any") or len(cd.call.args) < 2:
            continue
        if _split_of(sj, cd.call.args[0]) != what:
            continue
        side = flow.bool_true_labels(taken)
        if side is None or (side != cd.neg):
            continue            # the extend must sit on the side where no segment was forbidden
        # the predicate: a function item or a closure of one &str argument
        pred = None
        a = cd.call.args[1]
        cst = a.get("c")
        if cst is not None and "fn" in cst:
            from ..facts import norm_path
            pred = prog.fns.get(norm_path(cst["fn"]))
        for o in flow.origins(sj, a):
            if o.kind == "agg" and o.rv.get("closure"):
                from ..facts import norm_path
                pred = prog.fns.get(norm_path(o.rv["closure"]))
            if o.kind == "const" and o.const is not None and "fn" in o.const:
                from ..facts import norm_path
                pred = prog.fns.get(norm_path(o.const["fn"]))
        if pred is not None and eval_fn_on(prog, pred, "..") is True:
            return True
    return False


def _fold_form(prog, sj):
    """(fold call, closure Fn) when the joiner is written as `template.split('/').try_fold(base.to_path_buf(), |rv, seg| ..)`
    and returns the result of the fold; else None"""
    from ..facts import norm_path
    for c in sj.calls():
        if not c.name.endswith(("Iterator::try_fold", "Iterator::fold")) or len(c.args) != 3 or c.dest != {"l": 0}:
            continue
        sp = _split_of(sj, c.args[0])
        init_ok = any(o.kind == "call" and o.call.name == "std::path::Path::to_path_buf" and any(
            b.kind == "arg" and b.arg == 1 for b in flow.origins(sj, o.call.args[0])) for o in flow.origins(sj, c.args[1]))
        cl = None
        for o in flow.origins(sj, c.args[2]):
            if o.kind == "agg" and o.rv.get("closure"):
                cl = prog.fns.get(norm_path(o.rv["closure"]))
        if sp is not None and sp[1] == "47" and init_ok and cl is not None and cl.argc == 3:
            return c, cl
    return None


def check_fold_joiner(ctx, prog, fn_path, sj, fold, cl):
    """the fold form: accumulator = closure parameter 2 (starts as a copy of the base), segment = parameter 3 (an item of
    split('/')).  Every `&mut` use of the accumulator is a push of the segment under a guard `..` fails; the closure
    returns the accumulator it was given."""
    ctx.ob("C17.L2.base", "%s|returned path starts from the base argument" % fn_path, True,
           "the joiner returns the fold over template.split('/') started from base.to_path_buf()", sj.where(fold.bb))
    n = 0
    for c in cl.calls():
        if not c.args:
            continue
        p0 = op_place(c.args[0])
        if p0 is None or "p" in p0:
            continue
        ty = cl.locals[p0["l"]].get("s", "")
        if not (ty.startswith("&mut") and "std::path::PathBuf" in ty):
            continue
        acc = all(o.kind == "arg" and o.arg == 2 for o in flow.origins(cl, c.args[0]))
        if c.name != PUSH or not acc:
            ctx.ob("C17.L2.mutator", "%s|%s" % (fn_path, c.name.split("::")[-1]), False,
                   "the path being built is also changed by %s inside the fold" % c.name, cl.where(c.bb))
            continue
        n += 1
        seg_or = flow.origins(cl, c.args[1])
        src_ok = bool(seg_or) and all(o.kind == "arg" and o.arg == 3 and not o.proj for o in seg_or)
        ctx.ob("C17.L2.segment-source", "%s|push#%d segment comes from split('/')" % (fn_path, n), src_ok,
               "segment origin %r" % seg_or, cl.where(c.bb))
        excluded, seen = False, []
        thru = lambda k: 0 if k.name.split("::")[-1] in ("as_bytes", "first", "last", "bytes", "chars", "as_str", "deref") else None
        for (sb, taken) in flow.guards(cl, c.bb):
            cd = flow.cond_of(cl, sb)
            if cd.kind != "call" or not cd.call.args:
                continue
            roots = [o for a in cd.call.args for o in flow.origins(cl, a, through_calls=thru)]
            if not any(o.kind == "arg" and o.arg == 3 for o in roots):
                continue
            v = eval_pred_on(cd.call, "..", cl, prog)
            side = flow.bool_true_labels(taken)
            seen.append((cd.call.name, v, side))
            if v is None or side is None:
                continue
            if (v != cd.neg) != side:
                excluded = True
        ctx.ob("C17.L2.dotdot-guard", "%s|push#%d cannot append '..'" % (fn_path, n), excluded,
               "guards on the segment (predicate, value on '..', side the push is on): %s" % seen, cl.where(c.bb))
    # what the closure hands on is the accumulator it was given
    rets = [o for o in flow.origins(cl, 0) if o.kind == "agg" and o.rv.get("variant") in ("Some", "Ok", "Continue") and o.rv["ops"]]
    same = bool(rets) and all(all(q.kind == "arg" and q.arg == 2 for q in flow.origins(cl, o.rv["ops"][0])) for o in rets)
    ctx.ob("C17.L2.base", "%s|the fold hands its accumulator on" % fn_path, same or cl.locals[0].get("s", "").endswith("PathBuf"),
           "the closure of the fold returns a path other than the accumulator it extends", cl.loc)
    return n


def check_safe_join(ctx, prog, fn_path, floor=True):
    sj = prog.fn(fn_path)
    ff = _fold_form(prog, sj)
    if ff is not None and not sj.calls_to(PUSH):
        n_ = check_fold_joiner(ctx, prog, fn_path, sj, ff[0], ff[1])
        if floor:
            ctx.floor("C17.L2 sites that grow the joined path in safe_join", n_, 1)
        return n_
    pushes = sj.calls_to(PUSH)
    # every call that takes the path being built by `&mut` (push, extend, set_file_name, pop ...)
    growers = []
    for c in sj.calls():
        if not c.args:
            continue
        p0 = op_place(c.args[0])
        if p0 is None or "p" in p0:
            continue
        ty = sj.locals[p0["l"]].get("s", "")
        if ty.startswith("&mut") and "std::path::PathBuf" in ty:
            growers.append(c)
    if floor:
        ctx.floor("C17.L2 sites that grow the joined path in safe_join", len(growers), 1)
    # the returned PathBuf: every `&mut` use must be a push
    ret_roots = set()
    for bb, i, s in sj.all_stmts():
        if s["k"] == "assign" and s["place"] == {"l": 0} and s["rv"]["k"] == "agg" and s["rv"].get("variant") == "Some":
            for o in flow.origins(sj, s["rv"]["ops"][0]):
                ret_roots.add(o.key())
                ok = o.kind == "call" and o.call.name == "std::path::Path::to_path_buf" and any(
                    b.kind == "arg" and b.arg == 1 for b in flow.origins(sj, o.call.args[0]))
                ctx.ob("C17.L2.base", "%s|returned path starts from the base argument" % fn_path, ok,
                       "the Some(..) payload originates from %r" % o, sj.where(bb))
    if not ret_roots and floor:
        ctx.ob("C17.L2.base", "%s|returned path starts from the base argument" % fn_path, False,
               "%s grows a path but does not return `Some(path)` built from `base.to_path_buf()`: the path that is read is "
               "not a fresh copy of the base directory extended by guarded segments (a shared or caller-supplied buffer "
               "can drift away from the base between lookups)" % fn_path.split("::")[-1], sj.loc)
    validated = []
    for c in growers:
        if c.name != PUSH and _extend_of_validated_split(prog, sj, c):
            # the two-pass form: every `/`-separated segment was inspected first (`split('/').any(forbidden)` left the
            # function), then the very same split is appended
            validated.append(c)
            ctx.ob("C17.L2.dotdot-guard", "%s|extend cannot append '..'" % fn_path, True,
                   "every segment of template.split('/') was tested by a predicate that holds for '..' before the same "
                   "split is appended", sj.where(c.bb))
            ctx.ob("C17.L2.segment-source", "%s|extend appends split('/')" % fn_path, True, "", sj.where(c.bb))
    for c in growers:
        if c in validated:
            continue
        # any other mutator of the path: its components are not the guarded segment
        if c.name != PUSH:
            ctx.ob("C17.L2.mutator", "%s|%s" % (fn_path, c.name.split("::")[-1]), False,
                   "the joined path is also changed by %s: the components it appends (or removes) are not the "
                   "`/`-separated segment that the `..`/hidden/backslash guard inspected, so a `..` can be smuggled "
                   "in (e.g. behind a backslash)" % c.name, sj.where(c.bb))
    n = 0
    for c in pushes:
        n += 1
        seg = c.args[1]
        seg_or = flow.origins(sj, seg)
        # segment source: Iterator::next on Split<char> built by str::split(template, '/')
        src_ok = False
        detail = "segment origin %r" % seg_or
        for o in seg_or:
            if o.kind == "call" and o.call.name.endswith("::next") and "Split<" in o.call.name:
                it = o.call.args[0]
                for o2 in flow.origins(sj, it, through_calls=lambda k: 0 if k.name.endswith("::into_iter") else None):
                    if o2.kind == "call" and o2.call.name == STR + "split":
                        sep = o2.call.args[1].get("c", {})
                        if sep.get("ty") == "char" and sep.get("int") == "47":
                            src_ok = True
                        else:
                            detail = "split separator is %s, not '/'" % sep.get("d")
        ctx.ob("C17.L2.segment-source", "%s|push#%d segment comes from split('/')" % (fn_path, n), src_ok, detail,
               sj.where(c.bb))
        # guard excluding ".."
        seg_keys = {o.key() for o in seg_or}
        excluded = False
        seen = []
        for (s, taken) in flow.guards(sj, c.bb):
            cd = flow.cond_of(sj, s)
            if cd.kind != "call" or not cd.call.args:
                continue
            # (the segment may be looked at as bytes or chars: `segment.as_bytes().first() == Some(&b'.')`)
            thru_ = lambda k: 0 if k.name.split("::")[-1] in ("as_bytes", "first", "last", "bytes", "chars", "as_str", "deref") else None
            recv = {o.key() for o in flow.origins(sj, cd.call.args[0])} | {o.key() for o in flow.origins(sj, cd.call.args[0], through_calls=thru_)}
            other = {o.key() for a in cd.call.args[1:] for o in flow.origins(sj, a)} if len(cd.call.args) > 1 else set()
            if not ((recv | other) & seg_keys):
                continue
            v = eval_pred_on(cd.call, "..", sj, prog)
            side = flow.bool_true_labels(taken)
            seen.append((cd.call.name, v, side))
            if v is None or side is None:
                continue
            if (v != cd.neg) != side:
                excluded = True
        ctx.ob("C17.L2.dotdot-guard", "%s|push#%d cannot append '..'" % (fn_path, n), excluded,
               "guards on the segment (predicate, value on '..', side the push is on): %s" % seen, sj.where(c.bb))
        ctx.sample({"rule": "C17.L2", "push": str(c.loc), "guards": [str(x) for x in seen]})
    return n


def joiners(prog):
    """the functions of the loader module that build the path to read: found by what they do (they push onto a
    PathBuf), not by name"""
    out = []
    for f in prog.fns.values():
        if f.kind != "closure" and f.loc.f.endswith(("minijinja/src/loader.rs", "controls/src/c17.rs")) and f.calls_to(PUSH):
            out.append(f.path)
    if SAFE_JOIN in prog.fns and SAFE_JOIN not in out:
        out.append(SAFE_JOIN)
    return sorted(out)


def loader_view(prog, f):
    """the loader closure with the private helpers parts of it may have been moved into spliced in (`read_template_source`)"""
    keep = set(joiners(prog)) | {"read_to_string", "kind", "eq", "ne", "push", "split", "join"}
    return inline.view(prog, f, keep=keep)


def check_fs_calls(ctx, prog, allowed_root, floor=True):
    n = 0
    inside = 0
    views = {f.path: loader_view(prog, f) for f in prog.fns.values() if f.kind == "closure" and f.root == allowed_root}
    spliced = set()
    for v in views.values():
        spliced |= set(inline.inlined_helpers(v))
    todo = list(views.values()) + [f for f in prog.fns.values() if f.path not in views]
    for f in todo:
        for c in f.calls():
            nm = c.path or ""
            if c.krate == "std" and nm.startswith("std::fs::"):
                if f.path in spliced and f.path not in views:
                    sites = prog.callers().get(f.path, [])
                    if not f.is_pub and sites and all(k.fn.path in views for k in sites):
                        continue        # a private helper of the loader closure: checked as part of the closure above
                n += 1
                ok = f.root == allowed_root and f.kind == "closure"
                ctx.ob("C17.L1.who-may-call", "%s|%s" % (f.path, nm), ok,
                       "file-system access outside the path loader closure" if not ok else "", f.where(c.bb))
                if ok:
                    inside += 1
                    # the path argument is the Some payload of safe_join
                    good = False
                    # (a borrow of the joined PathBuf as a `&Path` is still that path)
                    thru = lambda k: 0 if (k.name.endswith("::deref") or k.name.endswith("::as_ref") or k.name.endswith("::as_path")
                                           or k.name.endswith("::borrow")) else None
                    os_ = flow.origins(f, c.args[0], through_calls=thru) if c.args else []
                    for o in os_:
                        if o.kind == "call" and o.call.name in joiners(prog) and "as Some" in o.proj:
                            good = True
                        # `safe_join(..).map_or(Ok(None), |path| read(path))`: the parameter of a closure that a
                        # combinator runs on the Some of the join
                        for (h_, r_, var_) in combinators.payload_origins(prog, f, o, through_calls=thru):
                            if var_ == "Some" and r_.kind == "call" and r_.call.name in joiners(prog) and not r_.proj:
                                good = True
                    ctx.ob("C17.L1.path-from-safe_join", "%s|%s" % (f.path, nm), good and len(os_) == 1,
                           "path argument origins: %r" % os_, f.where(c.bb))
                    # ... and it is used as the join returned it: nothing in the loader takes the path by `&mut`
                    muts = []
                    for bb_, i_, st_ in f.all_stmts():
                        rv_ = st_.get("rv", {})
                        if rv_.get("k") == "ref" and rv_.get("mut") and "std::path::PathBuf" in f.locals[rv_["place"]["l"]].get("s", ""):
                            muts.append(f.where(bb_))
                    ctx.ob("C17.L1.joined-path-is-not-modified", "%s|%s" % (f.path, nm), not muts,
                           "the loader borrows the joined path mutably (%s): components can be added or removed after the "
                           "per-segment guard ran" % muts[:3], f.where(c.bb))
    if floor:
        ctx.floor("C17.L1 fs call sites inside the loader", inside, 1)
    return n


def check_notfound(ctx, prog, floor=True):
    cl = [loader_view(prog, f) for f in prog.closures_of(PATH_LOADER)]
    ctx.need(cl or not floor, "C17: path_loader has no closure")
    n = 0
    for f in cl:
        for bb, i, s in f.all_stmts():
            rv = s.get("rv", {})
            if s["k"] == "assign" and rv.get("k") == "agg" and rv.get("adt") == "core::option::Option" and rv.get("variant") == "None":
                # is this None returned as Ok(None)?  (the only Option the closure builds)
                n += 1
                ok = False
                why = []
                # `safe_join(..).map_or(Ok(None), ..)`: the None is the value a combinator uses when the join is None
                for c_ in f.calls():
                    for k_, a_ in enumerate(c_.args):
                        if combinators.default_binding(c_, k_) != "None":
                            continue
                        vals = flow.origins(f, a_)
                        inner = [x for v_ in vals if v_.kind == "agg" and v_.rv.get("variant") == "Ok" for x in flow.origins(f, v_.rv["ops"][0])]
                        if any(x.kind == "agg" and x.bb == bb and x.idx == i for x in vals + inner) and any(
                                r_.kind == "call" and r_.call.name == SAFE_JOIN and not r_.proj for r_ in flow.origins(f, c_.args[0])):
                            ok = True
                            why.append("value of %s on a None from safe_join" % c_.name.split("::")[-1])
                for (sb, taken) in flow.guards(f, bb):
                    cd = flow.cond_of(f, sb)
                    if cd.kind == "discr":
                        # switch on the discriminant of safe_join's result, not the Some arm
                        os_ = flow.origins(f, {"cp": cd.place})
                        if any(o.kind == "call" and o.call.name == SAFE_JOIN for o in os_) and "1" not in taken:
                            ok = True
                            why.append("safe_join returned None")
                    if cd.kind == "call" and cd.call.name.endswith("ErrorKind as core::cmp::PartialEq>::eq"):
                        var = None
                        for a in cd.call.args:
                            for o in flow.origins(f, a):
                                if o.kind == "const":
                                    rvv = flow.promoted_rvalue(f, o.const)
                                    if rvv is not None and rvv.get("k") == "agg":
                                        var = rvv.get("variant")
                        side = flow.bool_true_labels(taken)
                        kind_of_read = any(
                            o.kind == "call" and o.call.name == "std::io::error::Error::kind"
                            for a in cd.call.args for o in flow.origins(f, a))
                        if var == "NotFound" and side is True and not cd.neg and kind_of_read:
                            ok = True
                            why.append("err.kind() == NotFound")
                        else:
                            why.append("compared with %s on side %s" % (var, side))
                ctx.ob("C17.L3.only-notfound-is-missing", "%s|None#%d" % (f.path, n), ok,
                       "`None` (template missing) is produced under: %s" % (why or "no recognised condition"),
                       f.where(bb))
    if floor:
        ctx.floor("C17.L3 None results in the loader", n, 1)


def run(ctx):
    ctx.explain("C17: who-may-call rule for std::fs (only the path_loader closure, on the Some payload of safe_join); "
                "dominance + constant evaluation of the guard predicates of safe_join on the string '..' for every "
                "PathBuf::push; the segment source must be split('/'); NotFound is the only I/O error mapped to "
                "'missing'.  Decides confinement of the joined path on Unix for every template name; does not "
                "model symlinks (excluded by the property) or Windows prefixes.")
    ctx.assume("Unix path semantics: a relative component without '/' other than '..' cannot leave the base")
    ctx.assume("std::path::PathBuf::push appends a relative component (std semantics trusted)")
    for cfgname in ctx.configs():
        prog = ctx.program(cfgname)
        check_fs_calls(ctx, prog, PATH_LOADER)
        js = [j for j in joiners(prog) if j.startswith("minijinja::")]
        ctx.ob("C17.L2.path-is-built-by-a-guarded-join", "loader", bool(js),
               "no function of the loader module builds the path segment by segment (PathBuf::push): the template name "
               "reaches the file system without the per-segment guard", "")
        for j in js:
            check_safe_join(ctx, prog, j)
        check_notfound(ctx, prog)
        ctx.count("configs")
    # positive controls: each zero-count rule must fire on /verif/controls
    cprog = ctx.controls
    sub = ctx.fresh()
    check_fs_calls(sub, cprog, PATH_LOADER, floor=False)
    ctx.control("C17.L1", any(not o[2] for o in sub.obligations if o[0] == "C17.L1.who-may-call"))
    sub = ctx.fresh()
    check_safe_join(sub, cprog, "mjsa_controls::c17::weak_join", floor=False)
    ctx.control("C17.L2", any(not o[2] for o in sub.obligations if o[0] == "C17.L2.dotdot-guard"))
