"""C19 — a failing output sink stops the render with the sink's own error.

Structural clauses:
 O1 error discipline at the sink: the fmt::Result of every write on `Output` is returned or propagated (never dropped,
    `.ok()`-ed, defaulted or unwrapped).
 O2 every call that hands the caller's `&mut Output` on and returns a Result has its Err propagated.
 O3 WriteWrapper::{write_str, write_char} map the io::Error of write_all to fmt::Error and store it in `err`.
 O4 every WriteWrapper construction is paired with `take_err` on the Err path of the evaluation that used it, and
    take_err builds ErrorKind::WriteFailure with the stored io::Error as source.
 O5 macro evaluation renders into its own String-backed Output, never into the caller's sink.
 O6 no write is attempted after a failed one in the escaping / output code.
 O7 the WriteWrapper is built around the caller's writer itself, not around a buffering adapter that writes later.
"""
from .. import cfg, flow, errflow, query
from ..facts import op_place

OUT = "minijinja::output::Output"
WRITES = ("minijinja::output::Output::write_str", "minijinja::output::Output::write_fmt",
          "<minijinja::output::Output<'_> as core::fmt::Write>::write_str",
          "<minijinja::output::Output<'_> as core::fmt::Write>::write_char",
          "<minijinja::output::Output<'_> as core::fmt::Write>::write_fmt")
WW = "minijinja::output::WriteWrapper"
TAKE_ERR = "minijinja::output::WriteWrapper::take_err"
GOOD = ("returned", "propagated")


def is_output_ty(t):
    return t.get("adt") == OUT and t.get("refs", 0) >= 1


def output_params(f):
    return [l for l in range(1, f.argc + 1) if is_output_ty(f.locals[l])]


def result_ty(f, place):
    if place is None or "p" in place:
        return False
    return f.locals[place["l"]].get("adt") == "core::result::Result"


def check_dispositions(ctx, rule, f, c, inst):
    ds = errflow.disposition(f, c)
    bad = [d for d in ds if d[0] not in GOOD]
    ctx.ob(rule, inst, not bad and bool(ds),
           "the Result of %s is %s" % (c.name, "; ".join("%s (%s)" % (d[0], d[1]) for d in (bad or ds))),
           f.where(c.bb))
    return ds


def check_sink_code_is_stateless(ctx, prog, tag, crates=("minijinja", "minijinja_contrib")):
    from ..facts import norm_path
    mut = {norm_path(s_["path"]).split("::{constant#")[0] for s_ in prog.statics
           if (s_.get("mut") or not s_.get("freeze", True) or s_.get("thread_local"))}
    n = 0
    for f in sorted(prog.fns.values(), key=lambda g: g.path):
        if f.crate not in crates or f.kind == "closure":
            continue
        tys = [f.locals[i].get("s", "") for i in range(1, f.argc + 1)]
        if not any(("fmt::Formatter" in t or "output::Output" in t) for t in tys):
            continue
        n += 1
        names = set()
        for g in [f] + prog.closures_of(f.path):
            names |= set(query.named_consts(g))
        hit = sorted({m for nm in names for m in mut if nm == m or nm.startswith(m + "::")})
        ctx.ob("C19.O9.sink-writing-code-keeps-no-state", tag + f.path, not hit,
               "%s is handed the sink and uses the static / thread-local %s: state that outlives the write - if it is "
               "tidied up after the write, a failed write leaves it behind for the next render on the thread" % (f.path, hit), f.loc)
    return n


def run(ctx):
    ctx.explain("C19: error-discipline rules over MIR: the Result of every write on Output, and of every call that is "
                "handed the caller's Output, must be returned or reach a `return Err` on its Err branch (dropping, "
                ".ok(), unwrap_or*, unwrap are reported); WriteWrapper stores the io::Error and reports fmt::Error; "
                "each WriteWrapper construction is paired with take_err, which yields WriteFailure with the stored "
                "error as source; macros render into their own buffer.  Decides that no path of the engine swallows "
                "or converts a sink failure; the order/prefix property of the delivered bytes is not decided.")
    ctx.assume("std::fmt::Write::write_fmt / core::fmt::write propagate an Err from write_str (std semantics)")
    ctx.assume("custom formatters and Object::render implementations supplied by the host propagate errors")
    # O10 (after seed C19-9): a failing sink ends the render, but the State may be kept (`render_captured_to`, then
    # `State::render_block_to_write`): what the engine opened before the failing write - frames, depth charges, the block
    # layer cursor, the macro's context - is closed on the error path too, or the next render on that state delivers other
    # bytes than a plain render.  The error-path pairing of C05.B3 is a clause of this property.
    if not ctx.is_borrowed:
        from . import c05 as _c05
        _c05.run(ctx.borrowed("C05", "C19.O10:", only=lambda rule, inst: "vm-opener-has-closer-on-every-path" in rule
                              or "macro-context-swap-is-undone" in rule or "replaced-field-is-restored" in rule))
    for cname in ctx.configs():
        prog = ctx.program(cname)
        tag = "" if cname == "MAX" else "[%s]" % cname
        # O1
        n = 0
        for f in prog.fns.values():
            for c in f.calls():
                if c.name in WRITES:
                    n += 1
                    k = sum(1 for x in f.calls() if x.name == c.name and x.bb <= c.bb)
                    check_dispositions(ctx, "C19.O1.sink-result-propagated", f, c,
                                       "%s%s|%s#%d" % (tag, f.path, c.name.split("::")[-1], k))
        ctx.floor("C19.O1 write sites on Output" + tag, n, 12)
        # O6: no write is attempted after a failed one.  In the escaping / output code every path from one write on a
        # sink to the next write on it passes a test of the first write's result (`?`, `ok!`, a match); combining the
        # two results afterwards (`a.and(b)`, a tuple) evaluates the second write although the first failed, so the
        # sink receives bytes that are not a prefix of the output.
        n6 = 0
        FW = ("core::fmt::Formatter::write_str", "core::fmt::Formatter::write_fmt", "core::fmt::Formatter::write_char",
              "core::fmt::Write::write_str", "core::fmt::Write::write_fmt", "core::fmt::Write::write_char",
              "<core::fmt::Formatter<'_> as core::fmt::Write>::write_str", "<core::fmt::Formatter<'_> as core::fmt::Write>::write_char",
              "<core::fmt::Formatter<'_> as core::fmt::Write>::write_fmt") + WRITES
        for f in prog.fns.values():
            if not f.loc.f.endswith(("minijinja/src/utils.rs", "minijinja/src/output.rs")):
                continue
            ws = [c for c in f.calls() if (c.name in FW or c.path in FW) and c.dest is not None and "p" not in c.dest]
            if len(ws) < 2:
                continue
            tests = {}
            for w in ws:
                sp = errflow.result_split(f, w.dest["l"])
                bl = {sb for (sb, none_t, some_t, other, adt) in (sp.switches if sp else [])}
                tests[w.bb] = bl
            for w1 in ws:
                for w2 in ws:
                    if w1 is w2 or not cfg.can_reach(f, w1.bb, w2.bb):
                        continue
                    if w1.bb == w2.bb:
                        continue
                    n6 += 1
                    ok6 = bool(tests[w1.bb]) and cfg.paths_must_pass(f, w1.target if w1.target is not None else w1.bb,
                                                                     tests[w1.bb], [w2.bb])
                    if not ok6:
                        ctx.ob("C19.O6.no-write-after-a-failed-write", "%s%s|%s" % (tag, f.path, w2.name.split("::")[-1]), False,
                               "a write at %s can run although the earlier write at %s failed (its result is not tested on "
                               "every path between them): the sink receives bytes after reporting an error" % (
                                   f.tloc(w2.bb), f.tloc(w1.bb)), f.where(w2.bb))
        # O6b (round 13, seed C19-13): the same everywhere a formatter or the output is handed on.  In any function of
        # the engine a call that receives the formatter / output (directly, or in the argument tuple of a closure call:
        # `let rv = body(f); f.write_str(close)?; rv`) and returns a Result counts as a write; "run the body, do the
        # closing step, return the body's result" is right for cleanups and wrong for writes.
        def _is_sink(t):
            return (t.get("adt") in (OUT, "core::fmt::Formatter") or "fmt::Formatter" in t.get("s", "")) and (t.get("refs", 0) >= 1 or "&mut" in t.get("s", ""))

        def _gets_sink(f, c):
            for a in c.args:
                p_ = op_place(a)
                if p_ is None or "p" in p_:
                    continue
                if _is_sink(f.locals[p_["l"]]):
                    return True
                for o in flow.origins(f, a):
                    if o.kind == "agg" and o.rv.get("agg") == "tuple":
                        for x in o.rv["ops"]:
                            q_ = op_place(x)
                            if q_ is not None and "p" not in q_ and _is_sink(f.locals[q_["l"]]):
                                return True
            return False
        n6b = 0
        for f in prog.fns.values():
            if f.crate != "minijinja" or f.loc.f.endswith(("minijinja/src/utils.rs", "minijinja/src/output.rs")):
                continue
            if not any(_is_sink(f.locals[l]) for l in range(1, f.argc + 1)):
                continue
            ws = [c for c in f.calls() if c.dest is not None and "p" not in c.dest and result_ty(f, c.dest) and (
                c.name in FW or c.path in FW or _gets_sink(f, c))]
            if len(ws) < 2:
                continue
            tests = {}
            for w in ws:
                l_ = w.dest["l"]
                bl_ = set()
                for _hop in range(3):
                    sp = errflow.result_split(f, l_)
                    bl_ = {sb for (sb, none_t, some_t, other, adt) in (sp.switches if sp else [])}
                    if bl_:
                        break
                    # the verdict converted on its way to the test (`out.write_str(v).map_err(Error::from)`)
                    nxt = [k for k in f.calls() if k.name.endswith(("Result::map_err", "Result::map")) and k.args
                           and op_place(k.args[0]) == {"l": l_} and k.dest is not None and "p" not in k.dest]
                    if len(nxt) != 1:
                        break
                    l_ = nxt[0].dest["l"]
                tests[w.bb] = bl_
            for w1 in ws:
                for w2 in ws:
                    if w1 is w2 or w1.bb == w2.bb or not cfg.can_reach(f, w1.target if w1.target is not None else w1.bb, w2.bb):
                        continue
                    n6b += 1
                    ok6 = bool(tests[w1.bb]) and cfg.paths_must_pass(f, w1.target if w1.target is not None else w1.bb,
                                                                     tests[w1.bb], [w2.bb])
                    if not ok6:
                        ctx.ob("C19.O6.no-write-after-a-failed-write", "%s%s|%s after %s" % (tag, f.path, w2.name.split("::")[-1], w1.name.split("::")[-1]), False,
                               "a write at %s can run although the earlier write at %s failed (its result is not tested on "
                               "every path between them): the sink receives bytes after reporting an error" % (
                                   f.tloc(w2.bb), f.tloc(w1.bb)), f.where(w2.bb))
        ctx.count("C19.O6b ordered pairs of sink-receiving calls checked outside utils / output" + tag, n6b)
        ctx.count("C19.O6 ordered pairs of writes checked" + tag, n6)
        ctx.ob("C19.O6.no-write-after-a-failed-write", tag + "all-escaping-and-output-functions", True, "pairs checked: %d" % n6, "")
        # O2
        n2 = 0
        for f in prog.fns.values():
            ps = output_params(f)
            if not ps or f.path.startswith("minijinja::output::"):
                continue
            per = {}
            for c in f.calls():
                if c.name in WRITES:
                    continue
                if not result_ty(f, c.dest):
                    continue
                passes = False
                for a in c.args:
                    p = op_place(a)
                    if p is None or not is_output_ty(f.locals[p["l"]]):
                        continue
                    for o in flow.origins(f, a):
                        if o.kind == "arg" and o.arg in ps:
                            passes = True
                # closures capturing the output (with_execution_state(|state| do_eval(state, out, ..))) and
                # argument tuples of indirect calls (formatter(out, state, value))
                if not passes:
                    for a in c.args:
                        for o in flow.origins(f, a):
                            if o.kind == "agg" and o.rv.get("agg") in ("closure", "tuple"):
                                for cap in o.rv["ops"]:
                                    for oo in flow.origins(f, cap):
                                        if oo.kind == "arg" and oo.arg in ps:
                                            passes = True
                if passes:
                    n2 += 1
                    k = per[c.name] = per.get(c.name, 0) + 1
                    check_dispositions(ctx, "C19.O2.output-passing-call-propagates", f, c,
                                       "%s%s|%s#%d" % (tag, f.path, c.name, k))
        ctx.floor("C19.O2 calls handing the Output on" + tag, n2, 8)
        # O8 (after seed C19-7): between the engine and the sink sit the engine's own Display / Debug / render
        # implementations (`write!(out, "{}", value)` reaches `Display for Value`, `DynObject`, the object `render`
        # defaults ...).  A sink failure travels back through them as fmt::Error; each of them hands the formatter's
        # verdict on.  For every function of the engine with a `&mut Formatter` parameter: the Result of every call
        # that is given that formatter is returned or propagated (not `.or_else(..)`-ed into a second attempt).
        n8 = 0
        for f in prog.fns.values():
            if f.crate != "minijinja":
                continue
            fps = [l for l in range(1, f.argc + 1) if f.locals[l].get("adt") == "core::fmt::Formatter" and f.locals[l].get("refs", 0) >= 1]
            if not fps:
                continue
            per = {}
            for c in f.calls():
                if not result_ty(f, c.dest):
                    continue
                passes = False
                for a in c.args:
                    p = op_place(a)
                    if p is None:
                        continue
                    for o in flow.origins(f, a):
                        if o.kind == "arg" and o.arg in fps and not o.proj:
                            passes = True
                if not passes:
                    continue
                n8 += 1
                k = per[c.name] = per.get(c.name, 0) + 1
                ds = errflow.disposition(f, c)
                bad = [d for d in ds if d[0] in ("swallowed", "dropped", "matched-not-propagated")]
                if bad:
                    ctx.ob("C19.O8.formatting-code-hands-the-sink's-verdict-on", "%s%s|%s#%d" % (tag, f.path, c.name.split("::")[-1], k), False,
                           "%s is given the formatter and its Result is %s: a failed sink write inside it is answered "
                           "with another attempt or forgotten" % (c.name, "; ".join("%s (%s)" % (d[0], d[1]) for d in bad)),
                           f.where(c.bb))
        # O8b (round 10, seed C19-10): the verdict can also travel inside the value a combinator returns - `cond.then(||
        # f.write_str(", "))` is an Option<fmt::Result>, `opt.map(|x| write!(f, ..))` likewise.  A call that is handed a
        # closure which captured the formatter must have its return value used; and inside such a closure (it has no
        # Formatter *parameter*, so the loop above did not see it) every call given the captured formatter is held to the
        # same discipline.
        def _is_fmt(g, op_):
            p_ = op_place(op_)
            return p_ is not None and "p" not in p_ and g.locals[p_["l"]].get("adt") == "core::fmt::Formatter"
        for f in prog.fns.values():
            if f.crate != "minijinja":
                continue
            per = {}
            for c in f.calls():
                # (a) a closure that captured the formatter is handed to this call
                handed = False
                for a in c.args:
                    if "c" in a:
                        continue
                    for o in flow.origins(f, a):
                        if o.kind == "agg" and o.rv.get("closure") and any(
                                _is_fmt(f, x) or any(q.kind == "arg" and f.locals[q.arg].get("adt") == "core::fmt::Formatter" and not q.proj
                                                     for q in (flow.origins(f, x) if "c" not in x else []))
                                for x in o.rv["ops"]):
                            handed = True
                if handed and c.dest is not None and "p" not in c.dest and f.locals[c.dest["l"]].get("s") != "()":
                    n8 += 1
                    d_ = c.dest["l"]
                    used = False
                    for bb, i, st in f.all_stmts():
                        rv = st.get("rv")
                        if rv and any(op_place(x) is not None and op_place(x)["l"] == d_ for x in query.rv_operands(rv)):
                            used = True
                        if rv and rv["k"] in ("ref", "discr") and rv["place"]["l"] == d_:
                            used = True
                    for bb in f.reachable:
                        t = f.term(bb)
                        if t["k"] == "call" and any(op_place(x) is not None and op_place(x)["l"] == d_ for x in t["args"]):
                            used = True
                        if t["k"] == "switch" and op_place(t["discr"]) is not None and op_place(t["discr"])["l"] == d_:
                            used = True
                    if d_ == 0:
                        used = True
                    k = per[c.name] = per.get(c.name, 0) + 1
                    ctx.ob("C19.O8.formatting-code-hands-the-sink's-verdict-on", "%s%s|%s#%d(closure)" % (tag, f.path, c.name.split("::")[-1], k), used,
                           "%s is handed a closure that writes to the captured formatter, and what it returns (the closure's "
                           "verdict included) is never looked at" % c.name, f.where(c.bb))
                # (b) inside a closure: calls given the captured formatter
                if f.kind == "closure" and result_ty(f, c.dest) and any(_is_fmt(f, a) for a in c.args) and not any(
                        f.locals[l].get("adt") == "core::fmt::Formatter" for l in range(2, f.argc + 1)):
                    n8 += 1
                    ds = errflow.disposition(f, c)
                    bad = [d for d in ds if d[0] in ("swallowed", "dropped", "matched-not-propagated")]
                    if bad:
                        k = per[c.name] = per.get(c.name, 0) + 1
                        ctx.ob("C19.O8.formatting-code-hands-the-sink's-verdict-on", "%s%s|%s#%d" % (tag, f.path, c.name.split("::")[-1], k), False,
                               "%s is given the captured formatter and its Result is %s" % (c.name, "; ".join("%s (%s)" % (d[0], d[1]) for d in bad)),
                               f.where(c.bb))
        ctx.ob("C19.O8.formatting-code-hands-the-sink's-verdict-on", tag + "all-formatting-functions", True, "calls checked: %d" % n8, "")
        ctx.floor("C19.O8 calls given a formatter in the engine's formatting code" + tag, n8, 60)
    prog = ctx.prog
    # O9 (after seed C19-8): code that writes to the sink keeps no state of its own across the write.  A scratch buffer in
    # a `thread_local!` / static that is emptied *after* the write is left full when the write fails (`?`), and the next
    # render on the thread delivers the stale text: what a healthy sink receives then depends on an earlier failure.  No
    # function (or closure of a function) that is handed a `fmt::Formatter` / `Output` names a static with interior
    # mutability or a thread-local.
    check_sink_code_is_stateless(ctx, prog, "")
    sub9 = ctx.fresh()
    check_sink_code_is_stateless(sub9, ctx.controls, "control:", crates=("mjsa_controls",))
    ctx.control("C19.O9", any(not o[2] for o in sub9.obligations))
    # O3
    n3 = 0
    for meth in ("write_str", "write_char"):
        path = "<minijinja::output::WriteWrapper<W> as core::fmt::Write>::" + meth
        from .. import inline
        f0 = prog.fn(path)
        # read through a private helper the two methods may share (`self.write_bytes(s.as_bytes())`)
        f = inline.view(prog, f0, keep=("write_all", "map_err", "as_bytes", "encode_utf8"))
        helper_closures = [cl_ for h_ in inline.inlined_helpers(f) for cl_ in prog.closures_of(h_)]
        wa = [c for c in f.calls() if c.name.endswith("io::Write::write_all")]
        ctx.ob("C19.O3.wrapper-uses-write_all", path, len(wa) == 1,
               "expected exactly one write_all (short writes are retried by write_all)", f.loc)
        for c in wa:
            n3 += 1
            ds = errflow.disposition(f, c)
            ctx.ob("C19.O3.io-error-reaches-caller", path, bool(ds) and all(d[0] in GOOD for d in ds),
                   "; ".join("%s (%s)" % (d[0], d[1]) for d in ds), f.where(c.bb))
            # the map_err closure stores the error
            stored = False
            ret_fmt_err = False
            for cl in prog.closures_of(path) + helper_closures:
                caps = flow.closure_captures(prog, cl)
                for d in flow.stores(cl):
                    # which capture is written through?
                    target_is_err = "err" in flow._proj_names(d.place)
                    for o in flow.origins(cl, d.place["l"]):
                        if o.kind == "arg" and o.arg == 1 and o.proj and o.proj[0].isdigit():
                            ci = int(o.proj[0])
                            if ci < len(caps) and any("err" in x.proj for x in caps[ci]):
                                target_is_err = True
                    if target_is_err and d.rv["k"] in ("use", "agg"):
                        src = d.rv if d.rv["k"] == "agg" else None
                        if src is None:
                            for o in flow.origins(cl, d.rv["op"]):
                                if o.kind == "agg":
                                    src = o.rv
                        if src is not None and src.get("variant") == "Some":
                            if any(o.kind == "arg" and o.arg == 2 for o in flow.origins(cl, src["ops"][0])):
                                stored = True
                for bb, i, s in cl.all_stmts():
                    if s["k"] == "assign" and s["place"] == {"l": 0} and s["rv"]["k"] == "agg" and s["rv"].get(
                            "adt") == "core::fmt::Error":
                        ret_fmt_err = True
            # the same written without a closure (`Err(e) => { self.err = Some(e); Err(fmt::Error) }`)
            for d in flow.stores(f):
                if "err" in flow._proj_names(d.place) and d.rv["k"] in ("use", "agg"):
                    src = d.rv if d.rv["k"] == "agg" else None
                    if src is None:
                        for o in flow.origins(f, d.rv["op"]):
                            if o.kind == "agg":
                                src = o.rv
                    if src is not None and src.get("variant") == "Some" and any(
                            o.kind == "call" and o.call.bb == c.bb for o in flow.origins(f, src["ops"][0])):
                        stored = True
            for bb_, i_, s_ in f.all_stmts():
                if s_["k"] == "assign" and s_["rv"]["k"] == "agg" and s_["rv"].get("adt") == "core::fmt::Error":
                    ret_fmt_err = True
            ctx.ob("C19.O3.closure-stores-io-error", path, stored,
                   "the map_err closure must store Some(io_error) into WriteWrapper.err", f.loc)
            ctx.ob("C19.O3.closure-returns-fmt-error", path, ret_fmt_err, "", f.loc)
    ctx.floor("C19.O3 write_all sites in WriteWrapper", n3, 2)
    # O4
    aggs = query.aggregates_of(prog, WW)
    ctx.floor("C19.O4 WriteWrapper constructions", len(aggs), 2)
    for f, bb, i, rv in aggs:
        root = f.root or f.path
        takers = [g for g in prog.fns.values() if (g.path == root or g.root == root) and g.calls_to(TAKE_ERR)]
        ok = False
        detail = "no take_err in %s or its closures" % root
        for g in takers:
            if g.kind == "closure":
                # the closure must be passed to map_err on a Result that is returned
                host = prog.fns.get(g.parent) or prog.fn(root)
                for c in host.calls():
                    if c.name == "core::result::Result::map_err":
                        for a in c.args:
                            for o in flow.origins(host, a):
                                if o.kind == "agg" and o.rv.get("closure") and facts_norm(o.rv["closure"]) == g.path:
                                    ds = errflow.disposition(host, c)
                                    if ds and all(d[0] in GOOD for d in ds):
                                        ok = True
                                    else:
                                        detail = "map_err(take_err) result is %s" % ds
            else:
                ok = True
        ctx.ob("C19.O4.wrapper-paired-with-take_err", root, ok, detail, f.where(bb))
    # O7: the wrapper is built around the caller's writer itself.  An adapter in between (io::BufWriter, LineWriter, a
    # buffer struct of the crate) holds output back and writes it when it is dropped or flushed - i.e. *after* the
    # sink reported a failure and while the error is already being returned, with the result of that late write
    # ignored (BufWriter's Drop).  The sink operand of every WriteWrapper construction must therefore be the
    # function's own writer parameter (moved or reborrowed), not the result of a call.
    for f, bb, i, rv in aggs:
        if "w" not in rv.get("fields", []):
            ctx.need(False, "C19.O7: WriteWrapper has no field `w`")
        op = rv["ops"][rv["fields"].index("w")]
        os_ = flow.origins(f, op) if "c" not in op else []
        direct = bool(os_) and all(o.kind == "arg" and not o.proj for o in os_)
        via = sorted({o.call.name for o in os_ if o.kind == "call"})
        ty = f.local_ty(op_place(op)["l"]) if "c" not in op else None
        ctx.ob("C19.O7.engine-writes-to-the-callers-writer-itself", f.root or f.path, direct,
               "the sink handed to WriteWrapper is %s (type %s), not the caller's writer: output is held back by the "
               "adapter and written when it is flushed or dropped - also after a write failure was reported and while the "
               "WriteFailure error is being returned, the result of that late write being ignored"
               % (("the result of " + ", ".join(via)) if via else "not a parameter", (ty or {}).get("s") if isinstance(ty, dict) else ty),
               f.where(bb))
    te = prog.fn(TAKE_ERR)
    took = any(c.name == "core::option::Option::take" and any("err" in o.proj for o in flow.origins(te, c.args[0]))
               for c in te.calls())
    ctx.ob("C19.O4.take_err-consumes-stored-error", TAKE_ERR, took, "", te.loc)
    wf = False
    src_ok = False
    for cl in [te] + prog.closures_of(TAKE_ERR):
        for bb, i, s in cl.all_stmts():
            rv = s.get("rv", {})
            if rv.get("k") == "agg" and rv.get("adt") == "minijinja::error::ErrorKind" and rv.get("variant") == "WriteFailure":
                wf = True
        for c in cl.calls():
            if c.name == "minijinja::error::Error::with_source":
                if any(o.kind == "arg" for o in flow.origins(cl, c.args[1])):
                    src_ok = True
                # `match self.err.take() { Some(io_err) => ...with_source(io_err), .. }`
                if any(o.kind == "call" and o.call.name == "core::option::Option::take" and any(
                        "err" in q.proj for q in flow.origins(cl, o.call.args[0])) for o in flow.origins(cl, c.args[1])):
                    src_ok = True
    ctx.ob("C19.O4.take_err-yields-WriteFailure", TAKE_ERR, wf, "", te.loc)
    ctx.ob("C19.O4.take_err-attaches-io-error-as-source", TAKE_ERR, src_ok, "", te.loc)
    unwrap_or = [c for c in te.calls() if c.name == "core::option::Option::unwrap_or"]
    falls_back = len(unwrap_or) == 1 and any(o.kind == "arg" and o.arg == 2 for o in flow.origins(te, unwrap_or[0].args[1]))
    # or written as a match whose None arm returns the parameter
    falls_back = falls_back or any(o.kind == "arg" and o.arg == 2 and not o.proj for o in flow.origins(te, {"mv": {"l": 0}}))
    ctx.ob("C19.O4.take_err-falls-back-to-original", TAKE_ERR, falls_back,
           "", te.loc)
    # the writer's own error is used *whenever* one was stored: the original error comes back only on the None side of the
    # `take()`.  (Seed C19-1 handed the original back unless it was already a WriteFailure: a sink failure inside an
    # include / super() surfaced as BadInclude / EvalBlock without the io::Error.)  Decided by taking the None edge of every
    # switch on the taken Option away: no block that returns the parameter may stay reachable.
    removed = set()
    tested = False
    for sb in sorted(te.reachable):
        if te.term(sb)["k"] != "switch":
            continue
        cd = flow.cond_of(te, sb)
        if cd.kind == "discr" and (cd.adt or "").endswith("option::Option") and any(
                o.kind == "call" and o.call.name == "core::option::Option::take" for o in flow.origins(te, {"cp": cd.place})):
            tested = True
            t_ = te.term(sb)
            listed = {v: x for v, x in t_["arms"]}
            none_t = listed.get("0", t_["otherwise"] if "0" not in listed else None)
            if none_t is not None:
                removed.add((sb, none_t))
    if tested:
        reach = cfg.reach_from(te, 0, removed_edges=removed)
        back = [bb for bb, i, st in te.all_stmts() if bb in reach and st["k"] == "assign" and st["place"] == {"l": 0}
                and st["rv"]["k"] == "use" and any(o.kind == "arg" and o.arg == 2 and not o.proj for o in flow.origins(te, st["rv"]["op"]))]
        ctx.ob("C19.O4.stored-io-error-is-always-used", TAKE_ERR, not back,
               "take_err can hand the original error back although the writer's io::Error was stored (a condition on the "
               "original's kind): the failure of the sink is then reported as another kind of error, without the writer's "
               "error as its source", te.where(back[0]) if back else te.loc)
    # O5
    mc = "<minijinja::vm::macro_object::Macro as minijinja::value::object::Object>::call"
    if prog.has_fn(mc):
        # read through a helper the body evaluation may have been moved into (`self.render_body(state, ..)`)
        f = prog.view(mc, keep=("eval_macro", "new", "from_safe_string", "with_capacity", "auto_escape"))
        evs = [c for c in f.calls() if c.name.endswith("vm::eval_macro") or c.name.endswith("Executor::eval_macro")]
        ctx.floor("C19.O5 eval_macro calls in Macro::call", len(evs), 1)
        for c in evs:
            ok = False
            for a in c.args:
                p = op_place(a)
                if p is not None and is_output_ty(f.locals[p["l"]]):
                    for o in flow.origins(f, a):
                        if o.kind == "call" and o.call.name == "minijinja::output::Output::new":
                            src = flow.origins(f, o.call.args[0])
                            if src and all(f.locals[x.idx if x.kind == "undef" else -1].get("adt") == "alloc::string::String"
                                           if x.kind == "undef" else
                                           (x.kind == "call" and x.call.name.startswith("alloc::string::String::"))
                                           for x in src):
                                ok = True
            ctx.ob("C19.O5.macro-renders-into-own-buffer", mc, ok, "", f.where(c.bb))
    ctx.sample({"write sites": n, "output-passing calls": n2})


def facts_norm(p):
    from ..facts import norm_path
    return norm_path(p)
