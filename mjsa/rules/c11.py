"""C11 — run-time recursion is cut off by the recursion limit, never by the stack.

Structural clauses:
 R1 every re-entry into the interpreter is charged: each call site of eval_impl/do_eval/eval_state outside that chain
    is preceded on every path (in the same function, or in the function that builds the closure it sits in) by
    Context::push_frame or Context::incr_depth whose Err is propagated; push_frame/incr_depth call check_depth and
    undo on failure; check_depth compares depth() with the limit and returns Err on the exceeding side.
    The top-level entry `Executor::eval` is the one reviewed exception (a fresh context of depth 1).
 R2 cost constants and cap: the two incr_depth sites pass the named cost constants (macro: plus the caller's depth, so
    macro contexts inherit depth); constants are not below their reviewed values; set_recursion_limit clamps to
    MAX_RECURSION (no `stacker` in any analysed configuration) and MAX_RECURSION is not above its reviewed value.
 R3 no uncharged interpreter cycle: in the whole-program call graph (with callback resolution), once the charged
    re-entry edges are removed eval_impl cannot reach itself, and the uncharged top-level entry is not reachable from
    the interpreter.
 R4 inventory (reported in evidence, not a verdict): other recursive SCCs reachable from the interpreter.
"""
import json
import os

from .. import cfg, flow, errflow, query, callgraph
from ..facts import op_place, VERIF, const_int

EI = "minijinja::vm::Executor::eval_impl"
CHAIN = (EI, "minijinja::vm::Executor::do_eval", "minijinja::vm::Executor::eval_state")
PUSH = "minijinja::vm::context::Context::push_frame"
INCR = "minijinja::vm::context::Context::incr_depth"
CHECK = "minijinja::vm::context::Context::check_depth"
DEPTH = "minijinja::vm::context::Context::depth"
TOP = "minijinja::vm::Executor::eval"
SETLIM = "minijinja::environment::Environment::set_recursion_limit"

# reviewed values (DESIGN.md §3 C11.R2/R5): lowering a cost or raising the cap lets more interpreter frames
# nest before the limit trips; the debug-profile macro recursion already needs > 1 MiB of a 2 MiB stack
REVIEWED = {
    "minijinja::vm::MACRO_RECURSION_COST": ("min", 4),
    "minijinja::vm::BLOCK_RECURSION_COST": ("min", 4),
    "minijinja::vm::INCLUDE_RECURSION_COST": ("min", 10),
    "minijinja::environment::MAX_RECURSION": ("max", 500),
}


def charges(f):
    """charge calls in f whose Err is propagated"""
    out = []
    for c in f.calls():
        if c.name in (PUSH, INCR):
            ds = errflow.disposition(f, c)
            if ds and all(d[0] in ("returned", "propagated") for d in ds):
                out.append(c)
    return out



def charged_on_every_path(prog, host, site_bb, site_fn_path):
    """path-sensitive form of "a propagated charge dominates the re-entry": in the helper-transparent view of `host`,
    on every path that reaches the call at `site_bb` (or any call handing over the closure `site_fn_path`) a charge
    call (`push_frame` / `incr_depth`) returned Ok and none returned Err"""
    from .pairs import host_view
    from .. import typestate
    from ..facts import norm_path
    v = host_view(prog, host)
    bad = []
    hit = []

    def is_site(c):
        if site_fn_path is None:
            return v is host and c.bb == site_bb
        for a in c.args:
            for o in flow.origins(v, a):
                if o.kind == "agg" and o.rv.get("closure") and norm_path(o.rv["closure"]) == site_fn_path:
                    return True
        return False

    def on_call(c, st, val):
        charged, failed = st
        if c.fn is v and c.name in (PUSH, INCR):
            return [((min(charged + 1, 2), failed), ("Ok",)), ((charged, True), ("Err",))]
        if c.fn is v and is_site(c):
            hit.append(c.bb)
            if charged == 0 or failed:
                bad.append(c.bb)
        return None
    r = typestate.explore(prog, v, (0, False), on_call)
    return bool(hit) and not bad and not r.budget_hit


def closure_host_call(prog, cl):
    """(host fn, bb of the call the closure value is passed to)"""
    host = prog.fns.get(cl.parent)
    if host is None:
        return None, None
    for c in host.calls():
        for a in c.args:
            for o in flow.origins(host, a):
                if o.kind == "agg" and o.rv.get("closure"):
                    from ..facts import norm_path
                    if norm_path(o.rv["closure"]) == cl.path:
                        return host, c
    return host, None


STACK_LIMIT = 2 * 1024 * 1024

# re-entry chains whose depth is not bounded by the recursion limit but by something else
R5_EXEMPT = {
    "minijinja::vm::Executor::eval": "top-level entry, not recursive",
}


def stack_sizes(repo):
    """{mangled symbol: frame size} of the minijinja rlib built with -Zemit-stack-sizes (debug profile)"""
    import glob
    import os
    import re
    import shutil
    import subprocess
    import tempfile
    from ..facts import CACHE, nightly_sysroot, CheckerBroken, CONFIGS
    os.makedirs(CACHE, exist_ok=True)
    tgt = tempfile.mkdtemp(prefix="mjsa-stack-", dir=CACHE)
    try:
        env = dict(os.environ, RUSTFLAGS="-Zemit-stack-sizes -Awarnings", CARGO_TARGET_DIR=tgt, CARGO_NET_OFFLINE="true",
                   CARGO_INCREMENTAL="0")
        feats = CONFIGS["ORD"][-1]
        r = subprocess.run(["cargo", "+nightly", "build", "--offline", "--lib", "-p", "minijinja", "--features", feats],
                           cwd=repo, env=env, stdout=subprocess.PIPE, stderr=subprocess.STDOUT, text=True)
        if r.returncode != 0:
            raise CheckerBroken("stack-size build failed:\n" + r.stdout[-2000:])
        rlibs = glob.glob(os.path.join(tgt, "debug", "deps", "libminijinja-*.rlib"))
        if not rlibs:
            raise CheckerBroken("no minijinja rlib produced")
        bins = glob.glob(os.path.join(nightly_sysroot(), "lib", "rustlib", "*", "bin"))
        if not bins:
            raise CheckerBroken("llvm-tools not found in the nightly sysroot")
        x = os.path.join(tgt, "x")
        os.makedirs(x)
        subprocess.check_call([os.path.join(bins[0], "llvm-ar"), "x", rlibs[0]], cwd=x)
        out = {}
        for o in glob.glob(os.path.join(x, "*.o")):
            r = subprocess.run([os.path.join(bins[0], "llvm-readobj"), "--stack-sizes", o], stdout=subprocess.PIPE,
                               stderr=subprocess.DEVNULL, text=True)
            for m in re.finditer(r"Functions: \[([^\]]*)\]\s*\n\s*Size: (0x[0-9A-Fa-f]+)", r.stdout):
                for sym in m.group(1).split(","):
                    out[sym.strip()] = max(out.get(sym.strip(), 0), int(m.group(2), 16))
        return out
    finally:
        shutil.rmtree(tgt, ignore_errors=True)


def frame_of(sizes, type_ident, fn_ident):
    """frame size of the inherent method `<..type_ident>::fn_ident` (v0 mangling: length-prefixed identifiers);
    closures and generic instances are other symbols"""
    t = "%d%s" % (len(type_ident), type_ident)
    f = "%d%s" % (len(fn_ident), fn_ident)
    best = None
    for sym, sz in sizes.items():
        if sym.startswith("_RNvM") and (t + f) in sym and not sym.startswith("_RNC"):
            # the method itself ends right after the identifier (optionally a crate back-reference)
            tail = sym.split(t + f)[-1]
            if tail == "" or (tail.startswith("B") and tail.endswith("_")):
                best = max(best or 0, sz)
    return best


def _charges(prog, root):
    """(unconditional charge, conditional charge, depth threshold or None) of a function that re-enters the interpreter.
    A charge is unconditional when its block dominates the call that enters the interpreter (in its own function /
    closure); `push_frame` = 1, `incr_depth(c)` = c, `reset_with_frame` = 1.  The threshold is the constant k of a
    `Context::depth() > k` test in the function: its conditional charges apply whenever the depth exceeds k."""
    uncond = cond = 0
    thr = None
    for g in [root] + prog.closures_of(root.path):
        entries = [c.bb for c in g.calls() if c.name in CHAIN or c.name.endswith("State::with_execution_state")]
        for k in g.calls():
            v = 0
            if k.name == PUSH or k.name.endswith("Context::reset_with_frame"):
                v = 1
            elif k.name == INCR:
                for o in _resolved_origins(prog, g, k.args[1]):
                    if o.kind == "const" and "int" in o.const:
                        v = max(v, int(o.const["int"]))
                    if o.kind == "bin":
                        for side in ("a", "b"):
                            for o2 in flow.origins(g, o.rv[side]):
                                if o2.kind == "const" and "int" in o2.const:
                                    v = max(v, int(o2.const["int"]))
            if not v:
                continue
            if entries and all(cfg.dominates(g, k.bb, e) for e in entries):
                uncond += v
            elif not entries and g is root:
                uncond += v
            else:
                cond += v
        for bb, i, st in g.all_stmts():
            rv = st.get("rv", {})
            if rv.get("k") == "bin" and rv["op"] in ("Gt", "Ge") and "c" in rv["b"]:
                if any(o.kind == "call" and o.call.name == DEPTH for o in flow.origins(g, rv["a"])):
                    kk = int(rv["b"]["c"].get("int", 0)) - (1 if rv["op"] == "Ge" else 0)
                    thr = kk if thr is None else min(thr, kk)
    if cond > 0 and root.kind != "closure":
        # dominance is only the simplest way to be unconditional: a charge inside `match push_frame(..) { Ok(()) => .. }`
        # is taken on every path that goes on to the evaluation.  Walk the paths: what is the least a path has charged
        # (successfully) when it enters the interpreter?
        lo = _least_charged_on_paths(prog, root)
        if lo is not None and lo >= uncond + cond:
            uncond, cond = uncond + cond, 0
    return uncond, cond, thr


def _least_charged_on_paths(prog, root):
    from .pairs import host_view
    from .. import typestate
    v = host_view(prog, root)
    seen = []

    def val_of(k):
        if k.name == PUSH or k.name.endswith("Context::reset_with_frame"):
            return 1
        if k.name == INCR:
            best = 0
            for o in _resolved_origins(prog, v, k.args[1]):
                if o.kind == "const" and "int" in o.const:
                    best = max(best, int(o.const["int"]))
            return best
        return 0

    def on_call(c, st, val):
        if c.fn is not v:
            return None
        w = val_of(c)
        if w:
            ty = v.locals[c.dest["l"]] if (c.dest is not None and "p" not in c.dest) else {}
            if ty.get("adt") == "core::result::Result":
                return [(min(st + w, 64), ("Ok",)), (st, ("Err",))]
            return [(min(st + w, 64), None)]
        if c.name in CHAIN or c.name.endswith("State::with_execution_state"):
            seen.append(st)
        return None
    r = typestate.explore(prog, v, 0, on_call)
    if r.budget_hit or not seen:
        return None
    return min(seen)


def frame_lookup(sizes, path):
    """frame size of a function given by its MIR path, 0 when no unambiguous symbol is found (keeps the bound a lower one)"""
    import re as _re
    if "{closure" in path or "{impl" in path:
        return 0
    m = _re.match(r"^<(.+) as (.+)>::(\w+)$", path)
    if m:
        ty = m.group(1).split("<")[0].split("::")[-1]
        fn_ = m.group(3)
    else:
        parts = path.split("::")
        if len(parts) < 2:
            return 0
        ty, fn_ = parts[-2].split("<")[0], parts[-1]
    key = "%d%s%d%s" % (len(ty), ty, len(fn_), fn_)
    hits = [sz for sym, sz in sizes.items() if key in sym and "NC" not in sym[:6]]
    return min(hits) if hits else 0


def min_frames_between(g, sizes, src, dsts, cache={}):
    """minimum over call paths src -> .. -> d (d in dsts) of the sum of frame sizes of the functions strictly between"""
    import heapq
    dsts = set(dsts)
    dist = {src: 0}
    pq = [(0, src)]
    while pq:
        d, a = heapq.heappop(pq)
        if d > dist.get(a, 1 << 60):
            continue
        for b in g.succ.get(a, ()):
            if b in dsts:
                return d
            w = cache.get(b)
            if w is None:
                w = cache[b] = frame_lookup(sizes, b)
            nd = d + w
            if nd < dist.get(b, 1 << 60):
                dist[b] = nd
                heapq.heappush(pq, (nd, b))
    return None


def check_stack_lower_bound(ctx, prog):
    """R5: even the lower bound of native stack use at the deepest recursion the limit admits must fit in 2 MiB.
    Self cycles (a construct re-entering itself) are charged with all its charges; mixed cycles A -> B -> A with the
    unconditional charges only, except that B's conditional charges count when they are keyed on `depth() > k` and A
    alone raises the depth above k."""
    sizes = stack_sizes(ctx.repo)
    ctx.floor("C11.R5 functions with a recorded frame size", len(sizes), 1000)
    fe = frame_of(sizes, "Executor", "eval_impl")
    ctx.need(fe is not None and fe > 1024, "C11.R5: frame size of eval_impl not found")
    limit = prog.const_val("minijinja::environment::MAX_RECURSION")
    ctx.analysed["R5 eval_impl frame bytes (debug)"] = fe
    roots = {}
    for f in prog.fns.values():
        if f.path in CHAIN:
            continue
        for c in f.calls():
            if c.name not in CHAIN:
                continue
            root = prog.fns.get(f.root) if f.kind == "closure" else f
            if root is None:
                continue
            if root.path in R5_EXEMPT:
                ctx.count("C11.R5 exempt chains")
                continue
            roots[root.path] = root
    info = {}
    g = callgraph.get(prog)
    EIP = "minijinja::vm::Executor::eval_impl"
    for path, root in sorted(roots.items()):
        u, c_, thr = _charges(prog, root)
        fr = frame_of(sizes, "Executor", path.split("::")[-1]) or 0
        # the frames that necessarily sit between two interpreter activations on the way through this construct
        w_in = min_frames_between(g, sizes, EIP, {path}) or 0
        w_out = min_frames_between(g, sizes, path, {EIP}) or 0
        ctx.analysed["R5 frames between activations via %s" % path.split("::")[-1]] = [w_in, w_out]
        fr += w_in + w_out
        info[path] = (max(u, 0), c_, thr, fr)
        cost = max(u + c_, 1)
        levels = limit // cost
        lower = levels * (fe + fr)
        ctx.ob("C11.R5.limit-trips-before-the-stack-ends", path, lower <= STACK_LIMIT,
               "recursion through %s is charged %d per level, so the limit of %d admits %d nested interpreter "
               "frames; eval_impl needs %d bytes and %s %d bytes per level (debug profile): at least %d bytes "
               "of native stack, the 2 MiB of a spawned thread are %d" % (
                   path.split("::")[-1], cost, limit, levels, fe, path.split("::")[-1], fr, lower, STACK_LIMIT),
               root.loc)
    names = sorted(info)
    for i, a in enumerate(names):
        for b in names[i + 1:]:
            ua, ca, ta, fa = info[a]
            ub, cb, tb, fb = info[b]
            cost_a = ua + (ca if (ta is not None and ub > ta) else 0)
            cost_b = ub + (cb if (tb is not None and ua > tb) else 0)
            cost = max(cost_a + cost_b, 1)
            levels = limit // cost
            lower = levels * (2 * fe + fa + fb)
            ctx.ob("C11.R5.mixed-cycle-trips-before-the-stack-ends", "%s<->%s" % (a.split("::")[-1], b.split("::")[-1]),
                   lower <= STACK_LIMIT,
                   "a cycle %s -> %s -> .. is charged %d + %d per round (unconditional charges; conditional ones only "
                   "when keyed on a depth the other construct exceeds), so the limit of %d admits %d rounds of two "
                   "interpreter frames each: at least %d bytes of native stack (debug profile), the 2 MiB of a spawned "
                   "thread are %d" % (a.split("::")[-1], b.split("::")[-1], cost_a, cost_b, limit, levels, lower, STACK_LIMIT),
                   roots[a].loc)


def _resolved_origins(prog, f, op):
    os_ = flow.origins(f, op)
    if prog is not None and f.kind == "closure" and any(o.kind == "arg" and o.arg == 1 and o.proj for o in os_):
        caps = flow.closure_captures(prog, f)
        more = []
        for o in os_:
            if o.kind == "arg" and o.arg == 1 and o.proj:
                try:
                    i_ = int(o.proj[0])
                except ValueError:
                    i_ = None
                if i_ is not None and i_ < len(caps):
                    more += caps[i_]
        os_ = [o for o in os_ if not (o.kind == "arg" and o.arg == 1 and o.proj)] + more
    return os_


def _const_of(f, op, prog=None):
    """(named constant or integer) a call argument is built from"""
    out = set()
    for o in _resolved_origins(prog, f, op):
        if o.kind == "const":
            out.add(o.const.get("named") or o.const.get("int"))
        elif o.kind == "bin":
            for side in ("a", "b"):
                for o2 in flow.origins(f, o.rv[side]):
                    if o2.kind == "const":
                        out.add(o2.const.get("named") or o2.const.get("int"))
                    elif o2.kind == "call":
                        out.add("call:" + o2.call.name.split("::")[-1])
        elif o.kind == "call":
            out.add("call:" + o.call.name.split("::")[-1])
    return out


def check_conditional_charges(ctx, prog, tag):
    """R7: a charge that is only taken when `current_block` is set must have a second key that survives a macro call.
    eval_macro evaluates the macro body with `current_block = None`; a block called from there looks like a top-level
    block call.  If a re-entering construct charges conditionally on `current_block.is_some()`, the condition must
    also contain a `Context::depth() > k` disjunct, and every construct that resets `current_block` must raise the
    depth above k unconditionally (the depth is inherited, it cannot be reset)."""
    WES = "minijinja::vm::state::State::with_execution_state"
    roots = {}
    for f in prog.fns.values():
        if f.path in CHAIN:
            continue
        if any(c.name in CHAIN for c in f.calls()):
            root = prog.fns.get(f.root) if f.kind == "closure" else f
            if root is not None:
                roots[root.path] = root
    resetters = {}
    for path, root in roots.items():
        for c in root.calls_to(WES):
            for a in c.args:
                p_ = op_place(a)
                if p_ is None or "p" in p_:
                    continue
                ty = root.locals[p_["l"]].get("s", "")
                if ty.startswith("core::option::Option<&") and "str" in ty:
                    src = flow.origins(root, a)
                    if src and all(o.kind == "agg" and o.rv.get("variant") == "None" for o in src):
                        resetters[path] = _charges(prog, root)[0]
    n = 0
    for path, root in sorted(roots.items()):
        u, c_, thr = _charges(prog, root)
        if c_ <= 0:
            continue
        n += 1
        others = {r: v for r, v in resetters.items() if r != path}
        ok = thr is not None and all(v > thr for v in others.values())
        ctx.ob("C11.R7.conditional-charge-survives-a-macro-call", tag + path, ok,
               "%s takes %d of its charge only under a condition%s.  The only sound reason not to charge is being at the "
               "template's top level, so the condition must hold whenever `Context::depth()` exceeds a small constant "
               "(the depth is inherited by macros and cannot be reset; `current_block` is reset by %s, and a test for "
               "one particular block is avoided by two blocks calling each other): otherwise a cycle is charged %d per "
               "interpreter frame only and overflows a 2 MiB stack before the limit" % (
                   path.split("::")[-1], c_, (" that includes depth() > %d" % thr) if thr is not None else " without a depth() test",
                   sorted(x.split("::")[-1] for x in others) or "macros", u), root.loc)
    return n


def check_depth_accounting(ctx, prog, tag):
    CTX = "minijinja::vm::context::Context"
    writers = {}
    for f, bb, w, pl in query.field_accessors(prog, CTX, "outer_stack_depth"):
        if w:
            writers.setdefault(f.path, []).append((f, bb))
    if not query.field_accessors(prog, CTX, "outer_stack_depth"):
        ctx.count("configs without an inherited depth counter (no macros / multi_template)")
        return
    ctx.floor("C11.R6 writers of the inherited depth counter" + tag, len(writers), 2)
    absolute = []
    for path, sites in sorted(writers.items()):
        f = sites[0][0]
        for d in flow.stores(f):
            if "outer_stack_depth" not in flow._proj_names(d.place) or d.rv is None:
                continue
            kind = "other"
            detail = ""
            srcs = flow.origins(f, d.rv["op"]) if d.rv["k"] == "use" else [flow.Origin(d.rv["k"], rv=d.rv)]
            for o in srcs:
                if o.kind == "const" and o.const.get("int") == "0":
                    kind = "reset"
                elif o.kind == "bin" and o.rv["op"].startswith(("Add", "Sub")):
                    a = flow.origins(f, o.rv["a"])
                    b = flow.origins(f, o.rv["b"])
                    self_a = any("outer_stack_depth" in x.proj for x in a)
                    self_b = any("outer_stack_depth" in x.proj for x in b)
                    if self_a or (self_b and o.rv["op"].startswith("Add")):
                        kind = "incremental"
                    elif o.rv["op"].startswith("Sub") and any(x.kind == "arg" and not x.proj for x in a) and any(
                            x.kind == "call" and x.call.name.endswith("::len") for x in b):
                        kind = "absolute"
                        absolute.append((f, [x.arg for x in a if x.kind == "arg"][0]))
                    detail = "%s(%r, %r)" % (o.rv["op"], a, b)
            ctx.ob("C11.R6.depth-counter-written-incrementally-or-checkpointed", "%s%s|%s" % (tag, path, kind),
                   kind in ("reset", "incremental", "absolute"),
                   "the inherited depth counter is overwritten with a value that is neither `old ± delta`, 0, nor a "
                   "checkpoint minus the frame count: %s" % detail, f.where(d.bb))
    # absolute restores: the checkpoint must be Context::depth() taken before the charge
    for f, argn in absolute:
        for c in prog.calls_of(f.path):
            g = c.fn
            srcs = flow.origins(g, c.args[argn - 1])
            ok = bool(srcs) and all(o.kind == "call" and o.call.name == DEPTH for o in srcs)
            before = ok and all(any(cfg.dominates(g, o.call.bb, k.bb) for k in g.calls() if k.name in (INCR, PUSH)) for o in srcs)
            ctx.ob("C11.R6.restored-checkpoint-is-the-full-depth", "%s%s|%s" % (tag, g.path, f.path.split("::")[-1]), ok and before,
                   "the value restored into the depth counter comes from %s, not from Context::depth() read before the "
                   "charge: finishing this nested evaluation resets the depth inherited from enclosing includes / macro "
                   "callers" % sorted({(o.call.name.split("::")[-1] if o.kind == "call" else o.kind) for o in srcs}),
                   g.where(c.bb))
    # incremental decrements give back the constant that was charged
    DECR = "minijinja::vm::context::Context::decr_depth"
    n = 0
    for c in prog.calls_of(DECR):
        g = c.fn
        n += 1
        amt = _const_of(g, c.args[1], prog)
        charged = set()
        host = prog.fns.get(g.root) if g.kind == "closure" else g
        for h in [g] + ([host] if host is not None and host is not g else []):
            for k in h.calls():
                if k.name == INCR:
                    charged |= _const_of(h, k.args[1], prog)
        if not charged:
            # charge and refund may sit in two private helpers of one function (`enter_..(state)?; ..; leave_..(state)`):
            # what was charged is looked for in the functions that call this one, helpers looked through
            from .pairs import host_view
            for site in prog.callers().get((host or g).path, []):
                hv = host_view(prog, site.fn)
                for k in hv.calls():
                    if k.name == INCR:
                        charged |= _const_of(hv, k.args[1], prog)
        ctx.ob("C11.R6.decrement-matches-charge", "%s%s" % (tag, g.path), bool(amt) and amt <= charged,
               "decr_depth(%s) does not give back what incr_depth charged (%s)" % (sorted(map(str, amt)), sorted(map(str, charged))),
               g.where(c.bb))
    if prog.has_fn(DECR):
        ctx.floor("C11.R6 decr_depth call sites" + tag, n, 1)


def check_swapped_contexts(ctx, prog, tag):
    """R9: an evaluation that installs *another* context (`mem::replace(&mut state.ctx, new)`, macros) continues the
    depth accounting of the call site on every path: a call on the new context that writes the depth counter from an
    argument derived from `depth()` of the current context dominates the swap, and nothing that zeroes the counter
    (`clear`, a reset) lies between that call and the swap.  A depth handed over only when the context is freshly
    built (`pool.pop().unwrap_or_else(|| Context::with_depth(d))`) leaves recycled contexts at depth 0: recursion
    through a macro that calls another macro first is never cut off."""
    if not prog.has_fn(DEPTH):
        return
    dfn = prog.fn(DEPTH)
    fields = {e["n"] for bb, p, w in query.all_places(dfn) for e in p.get("p", []) if isinstance(e, dict) and e.get("ty") in ("usize", "u32", "u64") and "n" in e}
    if not fields:
        return          # a configuration without nested evaluations: depth() is the frame count alone
    writers = {}        # function -> 'zero' | 'param'
    for fld in fields:
        for (pf, bb, adt, op, call) in flow.field_producers(prog, fld):
            if adt is None or not adt.endswith("context::Context"):
                continue
            if op is not None and "c" in op:
                kind = "zero" if const_int(op) == 0 else "const"
            else:
                kind = "param" if op is not None and any(
                    o.kind == "arg" or (o.kind == "bin") for o in flow.origins(pf, op)) else "other"
            writers.setdefault(pf.path, set()).add(kind)
    # one level of wrappers (reset_with_frame -> clear)
    for f in prog.fns.values():
        if f.path in writers or not f.path.startswith("minijinja::vm::context::Context::"):
            continue
        for c in f.calls():
            if c.name in writers and "zero" in writers[c.name] and c.args and any(
                    o.kind == "arg" and o.arg == 1 for o in flow.origins(f, c.args[0])):
                writers.setdefault(f.path, set()).add("zero")
    n = 0
    for f in prog.fns.values():
        if f.crate != "minijinja":
            continue
        swaps = [c for c in f.calls() if c.name == "core::mem::replace" and len(c.args) == 2 and any(
            o.kind == "arg" and o.proj and o.proj[-1] == "ctx" for o in flow.origins(f, c.args[0]))]
        if not swaps:
            continue
        first = [c for c in swaps if not any(o.kind == "call" and o.call.name == "core::mem::replace" for o in flow.origins(f, c.args[1]))]
        for sw in first:
            n += 1
            newctx = {o.key() for o in flow.origins(f, sw.args[1])}
            inherit, zero = [], []
            for c in f.calls():
                if c.bb == sw.bb or not c.args or c.name not in writers:
                    continue
                if not ({o.key() for o in flow.origins(f, c.args[0])} & newctx):
                    continue
                if "param" in writers[c.name] and len(c.args) > 1 and any(
                        x.kind == "call" and x.call.name == DEPTH
                        for a in c.args[1:] if "c" not in a for o in flow.origins(f, a)
                        for x in ([o] + ([y for sd in ("a", "b") if o.kind == "bin" and "c" not in o.rv[sd] for y in flow.origins(f, o.rv[sd])]))):
                    inherit.append(c)
                elif "zero" in writers[c.name]:
                    zero.append(c)
            good = [c for c in inherit if cfg.dominates(f, c.bb, sw.bb) and not any(
                cfg.dominates(f, c.bb, z.bb) and cfg.dominates(f, z.bb, sw.bb) and z.bb != c.bb for z in zero)]
            # the error side of the inheriting call does not reach the swap
            ctx.ob("C11.R9.swapped-in-context-inherits-the-depth-on-every-path", "%s%s" % (tag, f.path.split("::")[-1]), bool(good),
                   "the context installed by %s does not receive the depth of the call site on every path to the swap "
                   "(calls that set it from depth(): %s; calls that zero it: %s): a recycled context starts at depth 0 and "
                   "the recursion limit counts from there" % (f.path.split("::")[-1], [c.name.split("::")[-1] for c in inherit],
                                                               [c.name.split("::")[-1] for c in zero]), f.where(sw.bb))
    if prog.has_fn("minijinja::vm::Executor::eval_macro"):
        ctx.floor("C11.R9 context swaps" + tag, n, 1)


def check_charge_target(ctx, prog, tag):
    # R11: what a charge adds is what the limit test looks at.  Every field of the context that `incr_depth` writes
    # is read by `Context::depth()`, the quantity `check_depth` compares with the limit - in every feature
    # configuration (the accounting functions exist as cfg-gated twins; seed C11-8 merged two of them under the
    # wrong condition: with `macros` alone the charge went into a field the test no longer read).
    if prog.has_fn(INCR) and prog.has_fn(DEPTH):
        CTXT = "minijinja::vm::context::Context"
        wr = set()
        inc = prog.fn(INCR)
        for d_ in flow.stores(inc):
            nm_ = flow._proj_names(d_.place)
            if nm_:
                wr.add(nm_[0])
        for bb_, i_, st_ in inc.all_stmts():
            if st_["k"] == "assign" and "p" in st_["place"]:
                nm_ = flow._proj_names(st_["place"])
                if nm_:
                    wr.add(nm_[0])
        dp = prog.fn(DEPTH)
        rd = set()
        for bb_, i_, st_ in dp.all_stmts():
            for o_ in errflow._rv_operands(st_.get("rv", {})) if st_["k"] == "assign" else []:
                p_ = op_place(o_)
                if p_:
                    rd |= set(flow._proj_names(p_))
            rv_ = st_.get("rv", {})
            if rv_.get("k") in ("ref", "discr") and rv_.get("place"):
                rd |= set(flow._proj_names(rv_["place"]))
        for c_ in dp.calls():
            for a_ in c_.args:
                p_ = op_place(a_)
                if p_:
                    rd |= set(flow._proj_names(p_))
        missing = sorted(wr - rd)
        ctx.ob("C11.R11.charge-goes-where-the-limit-test-looks", tag + "incr_depth~depth", bool(wr) and not missing,
               "incr_depth adds the charge to Context.%s, which Context::depth() (the quantity check_depth compares with "
               "the limit) does not read in this configuration: macro / block recursion is charged but never cut off"
               % missing, dp.loc)


def run(ctx):
    ctx.explain("C11: must-pass-through rule (a propagated depth charge dominates every re-entry into the "
                "interpreter), structure of push_frame/incr_depth/check_depth, reviewed cost constants and the "
                "limit clamp, and a whole-program call-graph rule: with the charged re-entry edges removed the "
                "interpreter is acyclic and cannot reach the uncharged top-level entry.  Decides that every "
                "interpreter recursion is counted against the limit on all paths; the native stack cost per level "
                "(whether 500 levels fit in 2 MiB) is not decided by the quick tier.")
    ctx.assume("no analysed configuration enables `stacker`")
    ctx.assume("native recursion over data (Value Display/Drop/cmp on deeply nested values) is outside this property "
               "(inventoried only)")
    cfgs = list(ctx.configs())
    if not ctx.is_borrowed:
        # macros without multi_template: the cfg-gated twins of the depth accounting differ only here
        if ctx.tier != "quick":
            cfgs.append("MAC")
        else:
            check_charge_target(ctx, ctx.program("MAC"), "[MAC]")
    for cname in cfgs:
        prog = ctx.program(cname)
        tag = "" if cname == "MAX" else "[%s]" % cname
        if not prog.has_fn(EI):
            ctx.need(False, "C11: eval_impl missing in %s" % cname)
        check_charge_target(ctx, prog, tag)
        # R1
        sites = []
        for f in prog.fns.values():
            if f.path in CHAIN:
                continue
            for c in f.calls():
                if c.name in CHAIN:
                    sites.append((f, c))
        ctx.floor("C11.R1 re-entry sites" + tag, len(sites), 1 if cname == "MIN" else (2 if cname == "MAC" else 4))
        charged_edges = set()
        for f, c in sites:
            inst = "%s%s|%s" % (tag, f.path, c.name.split("::")[-1])
            if f.path == TOP:
                # reviewed exception: fresh context; the frame is created by Context::new_with_frame (depth 1)
                ok = any(k.name == "minijinja::vm::context::Context::new_with_frame" for k in f.calls())
                ctx.ob("C11.R1.top-level-entry-starts-fresh-context", inst, ok, "", f.where(c.bb))
                continue
            ch = [k for k in charges(f) if cfg.dominates(f, k.bb, c.bb)]
            how = "charged in the same function"
            if not ch and f.kind == "closure":
                host, hc = closure_host_call(prog, f)
                if host is not None and hc is not None:
                    ch = [k for k in charges(host) if cfg.dominates(host, k.bb, hc.bb)]
                    how = "charged in %s before the closure is run" % host.path
            if not ch:
                # the charge may sit in a helper, and its success in a value (`let entered = match push_frame(..) {..}`):
                # walk the paths of the function (for a closure: of the function that hands it to the evaluation)
                if f.kind == "closure":
                    host, hc = closure_host_call(prog, f)
                    if host is not None and charged_on_every_path(prog, host, None, f.path):
                        ch = ["paths"]
                        how = "every path of %s to the evaluation of this closure passes a successful charge" % host.path
                elif charged_on_every_path(prog, f, c.bb, None):
                    ch = ["paths"]
                    how = "every path to this call passes a successful charge"
            ctx.ob("C11.R1.re-entry-is-charged", inst, bool(ch),
                   how if ch else "no push_frame/incr_depth with a propagated Err dominates this call into the "
                                  "interpreter: recursion through it is not counted against the limit",
                   f.where(c.bb))
            if ch:
                charged_edges.add((f.key, c.name))
        # structure of the charge functions
        for name in (PUSH, INCR):
            if not prog.has_fn(name):
                continue
            g = prog.fn(name)
            cks = g.calls_to(CHECK)
            if not cks:
                # the test may be shared with check_depth through a private helper (`check_depth_against(new_depth, limit)`):
                # read through it, every path passes a comparison with the recursion limit whose exceeding side cannot
                # return Ok
                gv = prog.view(name, keep=("depth", "len"), max_blocks=40)
                tests = []
                for sb in sorted(gv.reachable):
                    if gv.term(sb)["k"] != "switch":
                        continue
                    cd_ = flow.cond_of(gv, sb)
                    if cd_.kind != "bin" or cd_.rv["op"] not in ("Gt", "Ge", "Lt", "Le"):
                        continue
                    la_ = any("recursion_limit" in o.proj for o in flow.origins(gv, cd_.rv["a"]))
                    lb_ = any("recursion_limit" in o.proj for o in flow.origins(gv, cd_.rv["b"]))
                    if la_ == lb_:
                        continue
                    exceed_on_true = (lb_ and cd_.rv["op"] in ("Gt", "Ge")) or (la_ and cd_.rv["op"] in ("Lt", "Le"))
                    if cd_.neg:
                        exceed_on_true = not exceed_on_true
                    within = cfg.bool_edges(gv, sb, not exceed_on_true)
                    reach_ = cfg.reach_with_variant_phis(gv, within)
                    ok_after = any(st_["k"] == "assign" and st_["place"] == {"l": 0} and st_["rv"].get("variant") == "Ok"
                                   for r_ in reach_ for st_ in gv.stmts(r_))
                    if not ok_after:
                        tests.append(sb)
                ctx.ob("C11.R1.charge-calls-check_depth", tag + name,
                       bool(tests) and cfg.paths_must_pass(gv, 0, tests, gv.returns()),
                       "a path through the charge function skips the comparison with the recursion limit (read through helpers: %s)"
                       % getattr(gv, "inlined", []), g.loc)
                continue
            ctx.ob("C11.R1.charge-calls-check_depth", tag + name,
                   len(cks) >= 1 and cfg.paths_must_pass(g, 0, [k.bb for k in cks], g.returns()),
                   "a path through the charge function skips check_depth", g.loc)
            for k in cks:
                ds = errflow.disposition(g, k)
                ctx.ob("C11.R1.charge-propagates-limit-error", tag + name,
                       bool(ds) and all(d[0] in ("returned", "propagated") for d in ds), "%s" % ds, g.where(k.bb))
        ck = prog.fn(CHECK)
        in_view = False
        if not any(ck.term(b_)["k"] == "switch" for b_ in ck.reachable):
            ck = prog.view(CHECK, keep=("depth", "len"), max_blocks=40)      # the comparison sits in a shared helper
            in_view = True
        cmp_ok = False
        detail = ""
        for bb in sorted(ck.reachable):
            t = ck.term(bb)
            if t["k"] != "switch":
                continue
            cd = flow.cond_of(ck, bb)
            if cd.kind == "bin" and cd.rv["op"] in ("Gt", "Ge", "Lt", "Le"):
                a = flow.origins(ck, cd.rv["a"])
                b = flow.origins(ck, cd.rv["b"])
                da = any(o.kind == "call" and o.call.name == DEPTH for o in a)
                db = any(o.kind == "call" and o.call.name == DEPTH for o in b)
                la = any("recursion_limit" in o.proj for o in a)
                lb = any("recursion_limit" in o.proj for o in b)
                # which side errs?
                errs_true = None
                for v, x in t["arms"] + [["otherwise", t["otherwise"]]]:
                    reach = cfg.reach_from(ck, x)
                    has_err = any(s["k"] == "assign" and (s["place"] == {"l": 0} or (in_view and "p" not in s["place"])) and s["rv"].get("variant") == "Err"
                                  for r in reach for s in ck.stmts(r))
                    if v == "0":
                        err_on_false = has_err
                    else:
                        err_on_true = has_err
                op = cd.rv["op"]
                exceed_true = (da and lb and op in ("Gt", "Ge")) or (la and db and op in ("Lt", "Le"))
                exceed_false = (da and lb and op in ("Lt", "Le")) or (la and db and op in ("Gt", "Ge"))
                if (exceed_true and err_on_true and not err_on_false) != cd.neg and (exceed_true or exceed_false):
                    cmp_ok = True
                if exceed_false and err_on_false and not err_on_true and not cd.neg:
                    cmp_ok = True
                detail = "%s(%s, %s) err_on_true=%s" % (op, "depth" if da else "limit" if la else "?",
                                                        "depth" if db else "limit" if lb else "?", err_on_true)
        ctx.ob("C11.R1.check_depth-compares-depth-with-limit", tag + CHECK, cmp_ok, detail, ck.loc)
        dp = prog.fn(DEPTH)
        # depth() must include the live frame stack
        uses_stack = any(c.name.endswith("Vec<T, A>::len") or c.name.endswith("::len") for c in dp.calls())
        ctx.ob("C11.R1.depth-counts-frames", tag + DEPTH, uses_stack, "", dp.loc)

        # R2
        if prog.has_fn(INCR):
            n_inc = 0
            for c in prog.calls_of(INCR):
                n_inc += 1
                f = c.fn
                os_ = flow.origins(f, c.args[1])
                # a captured variable of a closure: look at what the enclosing function put into the capture
                if f.kind == "closure" and any(o.kind == "arg" and o.arg == 1 and o.proj for o in os_):
                    caps = flow.closure_captures(prog, f)
                    more = []
                    for o in os_:
                        if o.kind == "arg" and o.arg == 1 and o.proj:
                            try:
                                idx_ = int(o.proj[0])
                            except ValueError:
                                idx_ = None
                            if idx_ is not None and idx_ < len(caps):
                                more += caps[idx_]
                    os_ = [o for o in os_ if not (o.kind == "arg" and o.arg == 1 and o.proj)] + more
                # the cost may travel inside an Option (`let extra = nested.then_some(COST)` ... `if let Some(cost) = extra`):
                # look at what was put into it
                host_ = prog.fns.get(f.root) if f.kind == "closure" else f
                more2 = []
                for o in list(os_):
                    if o.kind == "call" and o.call.name.endswith("::then_some") and len(o.call.args) > 1:
                        more2 += flow.origins(host_ if o.call.fn is host_ else o.call.fn, o.call.args[1])
                    elif o.kind == "agg" and o.rv.get("variant") == "Some" and o.rv.get("ops"):
                        g_ = host_
                        more2 += flow.origins(g_, o.rv["ops"][0]) if g_ is not None else []
                os_ = os_ + more2
                named = set()
                depth_inherited = False
                for o in os_:
                    if o.kind == "const" and "named" in o.const:
                        from ..facts import norm_path
                        named.add(norm_path(o.const["named"]))
                    if o.kind == "bin":
                        for side in ("a", "b"):
                            for o2 in flow.origins(f, o.rv[side]):
                                if o2.kind == "const" and "named" in o2.const:
                                    from ..facts import norm_path
                                    named.add(norm_path(o2.const["named"]))
                                if o2.kind == "call" and o2.call.name == DEPTH:
                                    depth_inherited = True
                ok = bool(named & set(REVIEWED))
                ctx.ob("C11.R2.charge-uses-cost-constant", "%s%s" % (tag, f.path), ok,
                       "incr_depth argument origins: %r" % os_, f.where(c.bb))
                if "eval_macro" in f.path:
                    ctx.ob("C11.R2.macro-context-inherits-depth", "%s%s" % (tag, f.path), depth_inherited,
                           "the macro charge no longer adds the caller's depth: a fresh macro context restarts at 0",
                           f.where(c.bb))
            ctx.floor("C11.R2 incr_depth call sites" + tag, n_inc, 1)
        for cpath, (kind, bound) in REVIEWED.items():
            if cpath not in prog.consts:
                if cname in ("MAX", "DEF", "ORD"):
                    ctx.need(False, "C11.R2: constant %s not found" % cpath)
                continue
            val = prog.const_val(cpath)
            ok = val >= bound if kind == "min" else val <= bound
            ctx.ob("C11.R2.constant-within-reviewed-bound", tag + cpath, ok,
                   "%s = %d, reviewed %s %d" % (cpath, val, "minimum" if kind == "min" else "maximum", bound), "")
        sl = prog.view(SETLIM, keep=("min", "clamp"))
        clamp = False

        def is_max(o_):
            return o_.kind == "const" and o_.const is not None and o_.const.get("named", "").endswith("MAX_RECURSION")
        for d in flow.stores(sl):
            if "recursion_limit" in flow._proj_names(d.place) and d.rv["k"] == "use":
                os_ = flow.origins(sl, d.rv["op"])
                for o in os_:
                    if o.kind == "call" and o.call.name.endswith("::min"):
                        for a in o.call.args:
                            for o2 in flow.origins(sl, a):
                                if is_max(o2):
                                    clamp = True
                # the same written as a comparison: the stored value is the constant, or the argument on the side of
                # `level <= MAX_RECURSION`
                if not clamp and os_ and all(is_max(o) or o.kind == "arg" for o in os_) and any(is_max(o) for o in os_):
                    bounded_defs = set()
                    for df in flow.defs(sl).values():
                        for x in df:
                            if x.kind != "stmt" or x.rv["k"] != "use":
                                continue
                            src = flow.origins(sl, x.rv["op"])
                            tgt_is_value = any(o2.key() in {o.key() for o in os_ if o.kind == "arg"} for o2 in src) and len(src) == 1 and src[0].kind == "arg"
                            if not tgt_is_value:
                                continue
                            # is this copy of the argument one that reaches the store?  (cheap: it is a def of a local in
                            # the store's origin chain) - require the bound on every such copy that is not the entry copy
                            bounded = False
                            for g in flow.guard_facts(prog, sl, x.bb):
                                if g[0] == "bin" and g[1] in ("Le", "Lt", "Gt", "Ge"):
                                    a_ = flow.origins(sl, g[3]["a"])
                                    b_ = flow.origins(sl, g[3]["b"])
                                    if any(is_max(q) for q in b_) and any(q.kind == "arg" for q in a_) and ((g[1] in ("Le", "Lt")) == bool(g[2])):
                                        bounded = True
                                    if any(is_max(q) for q in a_) and any(q.kind == "arg" for q in b_) and ((g[1] in ("Ge", "Gt")) == bool(g[2])):
                                        bounded = True
                            if bounded:
                                bounded_defs.add((x.bb, x.idx if hasattr(x, 'idx') else id(x)))
                    # the value stored: walk back the phi - every arg-origin definition feeding the store must be bounded
                    feeding = []
                    seen_l = set()
                    work = [op_place(d.rv["op"])["l"]] if op_place(d.rv["op"]) else []
                    while work:
                        l_ = work.pop()
                        if l_ in seen_l:
                            continue
                        seen_l.add(l_)
                        for x in flow.whole_defs(sl, l_):
                            if x.kind == "stmt" and x.rv["k"] == "use":
                                q = op_place(x.rv["op"])
                                if q is not None and "p" not in q:
                                    src_ = flow.origins(sl, x.rv["op"])
                                    if len(flow.whole_defs(sl, l_)) > 1 and src_ and all(o_.kind == "arg" for o_ in src_):
                                        feeding.append(x)      # the member of the choice that is the caller's value
                                    else:
                                        work.append(q["l"])
                    clamp = bool(feeding) and all((x.bb, x.idx if hasattr(x, 'idx') else id(x)) in bounded_defs for x in feeding)
        ctx.ob("C11.R2.set_recursion_limit-clamps", tag + SETLIM, clamp,
               "set_recursion_limit must store min(level, MAX_RECURSION)", sl.loc)
        # the limit field of the context is only written from the environment's limit
        for f, bb, w, p in query.field_accessors(prog, "minijinja::vm::context::Context", "recursion_limit"):
            if w:
                ctx.ob("C11.R2.context-limit-written-only-at-construction", tag + f.path,
                       f.path == "minijinja::vm::context::Context::new", "", f.where(bb))

        # R6: depth accounting gives back exactly what was charged
        check_depth_accounting(ctx, prog, tag)
        from .pairs import check_closers, C as _C
        check_closers(ctx, prog, tag, "C11.R8.depth-is-decremented-only-after-a-successful-charge", only=(_C + "decr_depth",),
                      why=": the unsigned depth underflows and (without overflow checks) wraps, after which the limit "
                          "never trips")
        if prog.has_fn("minijinja::vm::Executor::call_block"):
            # (no floor on the number of *conditional* charges: a tree in which every charge is unconditional is fine;
            # the rule is vacuous only when it finds no re-entering construct at all, which R1's floor catches)
            ctx.count("C11.R7 conditional charges keyed on the current block" + tag, check_conditional_charges(ctx, prog, tag))
        check_swapped_contexts(ctx, prog, tag)
        # ---- R10 (= C05.B8, after seed C11-7): the charge argument follows the *instructions*: a jump to a position
        # remembered from other instructions (a recursive loop entered from a block or an include) re-runs code without
        # pushing the loop frame that carries the charge, so the render neither ends nor reaches the limit
        if cname == "MAX" and not ctx.is_borrowed:
            from .c05_jumps import check_jumps
            check_jumps(ctx.borrowed("C05", "C11.R10:"), prog, tag)

        # R3
        g = callgraph.get(prog)
        removed = set()
        for (fk, callee) in charged_edges:
            removed.add((fk, callee))
        inner = g.reach([EI], removed_edges=removed)
        cyc = None
        for a in inner:
            if EI in g.succ.get(a, ()) and (a, EI) not in removed:
                cyc = g.path(EI, a, removed_edges=removed) if a != EI else [EI]
                break
        # generic: can eval_impl reach any member of CHAIN again?
        # (the chain's own forward edges do_eval -> eval_state -> eval_impl are not re-entries; a call of a chain member
        # *by eval_impl itself* - seed C11-13: `return Self::eval_state(state, out)` for the parent template - is)
        back = [a for a in inner for b in g.succ.get(a, ()) if b in CHAIN and (a, b) not in removed and (a not in CHAIN or a == EI)]
        ctx.ob("C11.R3.no-uncharged-interpreter-cycle", tag + "eval_impl", not back,
               "uncharged call path back into the interpreter: %s" % (
                   " -> ".join((g.path(EI, back[0], removed_edges=removed) or [back[0]]) + ["(interpreter)"]) if back else ""),
               "")
        ctx.ob("C11.R3.top-level-entry-unreachable-from-interpreter", tag + TOP, TOP not in inner,
               "the uncharged top-level entry Executor::eval is reachable from the interpreter: %s" % (
                   " -> ".join(g.path(EI, TOP, removed_edges=removed) or []) if TOP in inner else ""), "")
        ctx.count("call graph nodes" + tag, len(g.succ))
        ctx.count("call graph edges" + tag, sum(len(v) for v in g.succ.values()))
        ctx.count("functions reachable from the interpreter" + tag, len(inner))
        if cname == "MAX" and ctx.tier == "thorough":
            check_stack_lower_bound(ctx, prog)
        if cname == "MAX":
            sccs = g.sccs(inner)
            inv = sorted(sorted(c)[0] + " (+%d)" % (len(c) - 1) for c in sccs if EI not in c)
            ctx.analysed["R4 recursive SCCs reachable from the interpreter (inventory)"] = inv
            ctx.sample({"re-entry sites": ["%s -> %s" % (f.path, c.name) for f, c in sites]})
