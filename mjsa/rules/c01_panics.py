"""C01.P18 / P20 — explicit panics of the front end, and std APIs that panic on a zero size.

P18  The lexer, the parser and the syntax configuration process raw template text and host-supplied delimiters.  An explicit
     `panic!` / `unreachable!` there is a crash unless it really is unreachable: the sites are a reviewed table keyed by
     function (with the count per function); a new one is reported.  (Found: `compile_expression("a }} b")` reached
     `panic!("empty lexer stack")`.)
P20  `slice::windows(0)`, `chunks(0)`, `Iterator::step_by(0)` panic.  Every such call has a size that is a non-zero
     constant, or a dominating test on the same quantity that excludes zero, or a reviewed reason.  (Found: an empty end
     delimiter accepted by `SyntaxConfigBuilder::build` reached `haystack.windows(0)` in `memstr`.)
"""
from .. import flow, query, cfg
from ..facts import const_int, op_place

FRONT = ("minijinja/src/compiler/lexer.rs", "minijinja/src/compiler/parser.rs", "minijinja/src/syntax.rs")
REVIEWED_PANICS = {
    "minijinja::compiler::parser::TokenStream::current": (2, "both arms follow `if self.current.is_err()`: the replaced value is the Err just tested, the second match runs on the not-Err side"),
    "minijinja::compiler::parser::Parser::parse_primary_impl": (1, "inner match on the token the enclosing arm `Token::Str(_) | Token::String(_)` just matched"),
    "minijinja::compiler::parser::Parser::subparse": (1, "the tokenizer emits only TemplateData / VariableStart / BlockStart in the template state (C01.P18 keeps the lexer's own panic out)"),
    "minijinja::syntax::imp::SyntaxConfig::pattern_to_marker": (1, "pattern ids come from the automaton built over at most five start delimiters"),
}
ZERO_PANICS = ("windows", "chunks", "chunks_exact", "rchunks", "step_by", "chunks_mut", "rchunks_exact")
REVIEWED_ZERO = {
    "minijinja::utils::memstr|windows": "the needle is a delimiter of the syntax configuration: the defaults are non-empty constants and SyntaxConfigBuilder::build rejects empty start and end delimiters",
    "minijinja::value::ops::range_step_backwards|step_by": "callers pass `step.unsigned_abs()` of a step that `slice` has tested against 0",
}


def check_front_end_panics(ctx, prog, tag=""):
    per = {}
    for f in prog.fns.values():
        if f.crate != "minijinja" or not f.loc.f.endswith(FRONT):
            continue
        for c in f.calls():
            if c.name.startswith("core::panicking::") or c.name.startswith("std::rt::begin_panic"):
                root = f.root or f.path
                per.setdefault(root, []).append((f, c))
    n = 0
    for root, sites in sorted(per.items()):
        n += len(sites)
        rev = REVIEWED_PANICS.get(root)
        ok = rev is not None and len(sites) <= rev[0]
        f, c = sites[0]
        ctx.ob("C01.P18.explicit-panic-of-the-front-end-is-reviewed", "%s%s|%d" % (tag, root, len(sites)), ok,
               ("reviewed: " + rev[1]) if ok else
               "%s has %d explicit panic site(s) (`panic!` / `unreachable!`) in code that processes template text or "
               "delimiters; %s: input that reaches one crashes the host" % (root.split("::")[-1], len(sites),
               "reviewed count is %d" % rev[0] if rev else "none is reviewed"), f.where(c.bb))
    return n


def _nonzero_evidence(f, bb, op):
    c = const_int(op)
    if c is not None:
        return "constant %d" % c if c != 0 else None
    thru = lambda k: 0 if k.name.split("::")[-1] in ("unsigned_abs", "abs", "into", "from", "unwrap", "try_into", "try_from", "get") else None
    keys = {o.key() for o in flow.origins(f, op, through_calls=thru)}
    srcs = flow.origins(f, op, through_calls=thru)
    if srcs and all(o.kind == "const" and const_int({"c": o.const}) not in (None, 0) for o in srcs):
        return "non-zero constants"
    for (sb, taken) in flow.guards(f, bb):
        cd = flow.cond_of(f, sb)
        side = flow.bool_true_labels(taken)
        if cd.kind == "discr" and (cd.adt or "").endswith("cmp::Ordering"):
            # `match x.cmp(&0) { Greater => .. }`: an arm other than Equal
            for o in flow.origins(f, {"cp": cd.place}):
                if o.kind == "call" and o.call.name.endswith("::cmp") and len(o.call.args) == 2:
                    def _is_zero(q):
                        if q.kind != "const":
                            return False
                        if const_int({"c": q.const}) == 0:
                            return True
                        rv_ = flow.promoted_rvalue(f, q.const)
                        return rv_ is not None and rv_.get("k") == "use" and const_int(rv_["op"]) == 0
                    zero = any(_is_zero(q) for q in flow.origins(f, o.call.args[1]))
                    same = {q.key() for q in flow.origins(f, o.call.args[0], through_calls=thru)} & keys
                    listed = {v for v, _ in f.term(sb)["arms"]}
                    eq_taken = ("0" in taken) or ("otherwise" in taken and "0" not in listed)
                    if zero and same and not eq_taken:
                        return "an arm of `cmp(&0)` other than Equal"
            continue
        if cd.kind != "bin" or side is None or cd.rv["op"] not in ("Eq", "Ne", "Gt", "Lt", "Ge", "Le"):
            continue
        k = const_int(cd.rv["b"])
        if k is None:
            continue
        if not ({o.key() for o in flow.origins(f, cd.rv["a"], through_calls=thru)} & keys):
            continue
        truth = (side != cd.neg)
        op_ = cd.rv["op"]
        if (op_ == "Eq" and k == 0 and not truth) or (op_ == "Ne" and k == 0 and truth) or (op_ == "Gt" and k >= 0 and truth) \
                or (op_ == "Ge" and k >= 1 and truth) or (op_ == "Lt" and k <= 1 and not truth and k >= 1) or (op_ == "Le" and k >= 0 and not truth):
            return "dominating test excludes 0"
    return None


def check_zero_sizes(ctx, prog, tag=""):
    n = 0
    for f in sorted(prog.fns.values(), key=lambda g: g.path):
        if f.crate not in ("minijinja", "minijinja_contrib"):
            continue
        for c in f.calls():
            last = c.name.split("::")[-1]
            if last not in ZERO_PANICS or len(c.args) < 2 or not (c.name.startswith("core::slice::") or "Iterator::step_by" in c.name):
                continue
            n += 1
            ev = _nonzero_evidence(f, c.bb, c.args[1])
            key = "%s|%s" % (f.path, last)
            if not ev and f.kind == "closure":
                # structural (not keyed by a closure number): the size is the step its function tested against 0 before
                # it built the closure
                from . import c09 as _c09
                if _c09.step_capture_is_tested(prog, f, c.args[1]):
                    ev = "captured step, tested against 0 before the closure was built"
                    key = "%s|%s" % ((f.root or f.path) + "::{closure}", last)
            if not ev and f.kind != "closure" and not f.is_pub:
                # the size is a parameter of a private function: every call site hands over a size that is non-zero there
                os_ = flow.origins(f, c.args[1]) if "c" not in c.args[1] else []
                if os_ and all(o.kind == "arg" and not o.proj for o in os_):
                    sites = prog.calls_of(f.path)
                    good = bool(sites)
                    for cs in sites:
                        for o in os_:
                            idx = o.arg - 1
                            if idx >= len(cs.args):
                                good = False
                                continue
                            a = cs.args[idx]
                            ok_here = _nonzero_evidence(cs.fn, cs.bb, a)
                            if not ok_here and cs.fn.kind == "closure":
                                from . import c09 as _c09
                                ok_here = _c09.step_capture_is_tested(prog, cs.fn, a)
                            good = good and bool(ok_here)
                    if good:
                        ev = "parameter of a private function; every call site passes a size that is non-zero there"
            why = ev or (REVIEWED_ZERO.get(key) and "reviewed - " + REVIEWED_ZERO[key])
            ctx.ob("C01.P20.size-that-panics-on-zero-is-non-zero", tag + key, bool(why),
                   ("accepted: " + why) if why else
                   "%s calls %s with a size that is neither a non-zero constant nor under a test that excludes 0 (and has no "
                   "reviewed reason): `%s(0)` panics" % (f.path.split("::")[-1], last, last), f.where(c.bb))
    return n


def check_assignment_targets(ctx, prog, tag=""):
    """P21 (round 10; `{% import 'x' as 42 %}` reached `unreachable!()` in the code generator while the template was
    loaded): producer / consumer agreement on assignment targets.  Consumer: the variants of `ast::Expr` for which the arm
    of `compile_assignment` does not end in a panic.  Producers: every place where the parser fills a field of an AST node
    that the generator hands to `compile_assignment` (found by the labelled events of C18: ForLoop.target, Set.target,
    Import.name, the pairs of WithBlock / FromImport ...) - the expression stored there comes from parser functions that
    can only build supported variants (their own `ast::Expr` aggregates plus those of the parser functions they call)."""
    from . import c18 as _c18
    from .. import arms as _arms
    G = "minijinja::compiler::codegen::CodeGenerator::"
    EXPR = "minijinja::compiler::ast::Expr"
    ca = prog.fns.get(G + "compile_assignment")
    if ca is None or EXPR not in prog.adts:
        return 0
    sw = _arms.enum_switches(prog, ca, EXPR)
    if not sw:
        return 0
    regs = _arms.arm_regions(prog, ca, sw[0][0], EXPR)
    supported = set()
    for v, reg in regs.items():
        panics = any(c.bb in reg and ("panicking::" in c.name or c.name.endswith("::unreachable")) for c in ca.calls())
        if not panics:
            supported.add(v)
    if not supported or len(supported) == len(regs):
        return 0
    ce, me, cs, ms = _c18.labelled_events(prog)
    fields = sorted({(e.T, e.field) for e in ce if e.kind == "assign" and e.field and e.T.split("::")[-1] not in ("List", "Tuple")})
    # what each parser function can build
    P = "minijinja::compiler::parser::"
    pfns = {k: f for k, f in prog.fns.items() if k.startswith(P) and f.kind != "closure"}
    builds = {}
    calls = {}
    for k, f in pfns.items():
        vs = set()
        for g in [f] + prog.closures_of(k):
            for bb, i, st in g.all_stmts():
                rv = st.get("rv")
                if rv and rv["k"] == "agg" and rv.get("adt") == EXPR and rv.get("variant"):
                    vs.add(rv["variant"])
        builds[k] = vs
        calls[k] = {c.name for g in [f] + prog.closures_of(k) for c in g.calls() if c.name in pfns and "ast::Expr" in pfns[c.name].locals[0].get("s", "")}
    grew = True
    while grew:
        grew = False
        for k in pfns:
            for c in calls[k]:
                if not builds[c] <= builds[k]:
                    builds[k] |= builds[c]
                    grew = True
    n = 0
    for (T, field) in fields:
        short = T.split("::")[-1]
        for (f, bb, i, rv) in query.aggregates_of(prog, T):
            if not f.path.startswith(P):
                continue
            names = rv.get("fields") or []
            if field[0] not in names:
                continue
            op = rv["ops"][names.index(field[0])]
            if "c" in op:
                continue
            comp = field[1] if len(field) > 1 else None
            producers = set()
            unknown = False
            for o in flow.origins(f, op, through_calls=lambda k: 0 if k.name.endswith(("::into_boxed_slice", "::into", "::from")) else None):
                if o.kind == "call" and o.call.name in pfns:
                    producers.add(o.call.name)
                elif o.kind == "call" and (o.call.name.endswith(("Vec::new", "Vec::with_capacity")) or "Vec" in o.call.name):
                    # a list that is filled by pushes: what is pushed onto it
                    vl = o.call.dest["l"] if o.call.dest and "p" not in o.call.dest else None
                    for c in f.calls():
                        if c.name.endswith("Vec::push") and len(c.args) == 2 and any(q.kind == "call" and q.call.bb == o.call.bb for q in flow.origins(f, c.args[0])):
                            for q in flow.origins(f, c.args[1]):
                                items = [c.args[1]]
                                if q.kind == "agg" and q.rv.get("agg") == "tuple" and comp is not None and comp.isdigit() and int(comp) < len(q.rv["ops"]):
                                    items = [q.rv["ops"][int(comp)]]
                                for it in items:
                                    for r in (flow.origins(f, it) if "c" not in it else []):
                                        if r.kind == "call" and r.call.name in pfns:
                                            producers.add(r.call.name)
                                        elif r.kind == "call" and r.call.name.startswith("core::option::Option"):
                                            for r2 in flow.origins(f, r.call.args[0]):
                                                if r2.kind == "call" and r2.call.name in pfns:
                                                    producers.add(r2.call.name)
                                        elif r.kind == "agg" and r.rv.get("adt") == EXPR:
                                            if r.rv.get("variant") not in supported:
                                                unknown = True
                elif o.kind == "agg" and o.rv.get("adt") == EXPR:
                    if o.rv.get("variant") not in supported:
                        unknown = True
            if not producers and not unknown:
                continue
            n += 1
            bad = sorted({"%s can build %s" % (k.split("::")[-1], sorted(builds[k] - supported)) for k in producers if builds[k] - supported})
            ctx.ob("C01.P21.assignment-target-is-built-by-a-target-parser", "%s%s.%s|%s" % (tag, short, ".".join(field), f.path.split("::")[-1]),
                   not bad and not unknown,
                   "the generator assigns to %s.%s with compile_assignment, which panics for everything but %s; the parser fills it "
                   "from %s" % (short, ".".join(field), sorted(supported), bad or sorted(k.split("::")[-1] for k in producers)), f.where(bb))
    return n


def check_argument_limit(ctx, prog, tag=""):
    """P22 (round 11, seed C01-11): the generator hands argument counts to the interpreter in narrow instruction payloads and
    *asserts* that they fit (`assert!(n as u16 as usize == n)`); what keeps that assert unreachable is the limit the parser
    puts on the number of written arguments.  The count the generator narrows is the written arguments plus what the call
    form adds (the value a filter / test is applied to, a method's receiver, one map for keyword arguments), so the
    parser's constant K must leave room: K + 16 <= max of the narrow type.  Producer and consumer are found by role: the
    parser function that pushes `CallArg`s and compares the length with a constant on the way to an error, the generator
    function over `CallArg`s that compares a value with its own narrowed copy in front of a panic."""
    from .. import query
    P = "minijinja::compiler::parser::"
    G = "minijinja::compiler::codegen::"
    widths = []
    for k, f in prog.fns.items():
        if not k.startswith(G) or f.kind == "closure":
            continue
        if not any("CallArg" in f.locals[l].get("s", "") for l in range(1, f.argc + 1)):
            continue
        panics = [c.bb for c in f.calls() if "panicking" in c.name]
        if not panics:
            continue
        narrow = [(bb, st) for (bb, i, st) in query.casts(f) if st["rv"].get("to") in ("u8", "u16", "u32") and st["rv"].get("from") in ("usize", "u64")]
        widen = {st["place"]["l"]: (bb, st) for (bb, i, st) in query.casts(f) if st["rv"].get("from") in ("u8", "u16", "u32")
                 and st["rv"].get("to") in ("usize", "u64") and "p" not in st["place"]}
        for sb in sorted(f.reachable):
            if f.term(sb)["k"] != "switch":
                continue
            cd = flow.cond_of(f, sb)
            if cd.kind != "bin" or cd.rv["op"] not in ("Eq", "Ne"):
                continue
            for x in (cd.rv["a"], cd.rv["b"]):
                q = op_place(x) if "c" not in x else None
                if q is not None and "p" not in q and q["l"] in widen:
                    # the widened copy of a narrowed value is compared with something in front of a panic
                    wbb, wst = widen[q["l"]]
                    src = op_place(wst["rv"]["op"])
                    for (nbb, nst) in narrow:
                        if src is not None and "p" not in nst["place"] and nst["place"]["l"] == src["l"]:
                            if any(pb in cfg.reach_from(f, sb) for pb in panics):
                                widths.append((k, {"u8": 8, "u16": 16, "u32": 32}[nst["rv"]["to"]], sb))
    limits = []
    for k, f in prog.fns.items():
        if not k.startswith(P) or f.kind == "closure":
            continue
        if "CallArg" not in f.locals[0].get("s", ""):
            continue
        for sb in sorted(f.reachable):
            if f.term(sb)["k"] != "switch":
                continue
            cd = flow.cond_of(f, sb)
            if cd.kind == "bin" and cd.rv["op"] in ("Gt", "Ge", "Lt", "Le"):
                def _k(op_):
                    v = const_int(op_)
                    if v is not None:
                        return v
                    os2 = flow.origins(f, op_) if "c" not in op_ else []
                    vs = {int(o.const["int"]) for o in os2 if o.kind == "const" and "int" in o.const}
                    return next(iter(vs)) if len(vs) == 1 and all(o.kind == "const" for o in os2) else None
                kb, ka = _k(cd.rv["b"]), _k(cd.rv["a"])
                kk = kb if kb is not None else ka
                other = cd.rv["a"] if kb is not None else cd.rv["b"]
                if kk is None or "c" in other:
                    continue
                if any(o.kind == "call" and o.call.name.rsplit("::", 1)[-1] == "len" for o in flow.origins(f, other)):
                    limits.append((k, kk, sb))
    n = 0
    for (gk, w, gsb) in widths[:1]:
        for (pk, kk, psb) in limits:
            n += 1
            ctx.ob("C01.P22.argument-limit-leaves-room-for-the-narrow-count", "%s%s|%s" % (tag, pk.split("::")[-1], gk.split("::")[-1]),
                   kk + 16 <= 2 ** w - 1,
                   "the parser admits %d written arguments; the generator asserts that the count (written arguments plus receiver / "
                   "filter value / keyword map) fits %d bits - the assert panics while the template is loaded" % (kk, w), prog.fn(pk).where(psb))
    return n, len(widths), len(limits)
