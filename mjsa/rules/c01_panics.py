"""C01.P18 / P20 — explicit panics of the front end, and std APIs that panic on a zero size.

P18  The lexer, the parser and the syntax configuration process raw template text and host-supplied delimiters.  An explicit
     `panic!` / `unreachable!` there is a crash unless it really is unreachable: the sites are a reviewed table keyed by
     function (with the count per function); a new one is reported.  (Found: `compile_expression("a }} b")` reached
     `panic!("empty lexer stack")`.)
P20  `slice::windows(0)`, `chunks(0)`, `Iterator::step_by(0)` panic.  Every such call has a size that is a non-zero
     constant, or a dominating test on the same quantity that excludes zero, or a reviewed reason.  (Found: an empty end
     delimiter accepted by `SyntaxConfigBuilder::build` reached `haystack.windows(0)` in `memstr`.)
"""
from .. import flow
from ..facts import const_int

FRONT = ("minijinja/src/compiler/lexer.rs", "minijinja/src/compiler/parser.rs", "minijinja/src/syntax.rs")
REVIEWED_PANICS = {
    "minijinja::compiler::parser::TokenStream::current": (2, "both arms follow `if self.current.is_err()`: the replaced value is the Err just tested, the second match runs on the not-Err side"),
    "minijinja::compiler::parser::Parser::parse_primary_impl": (1, "inner match on the token the enclosing arm `Token::Str(_) | Token::String(_)` just matched"),
    "minijinja::compiler::parser::Parser::subparse": (1, "the tokenizer emits only TemplateData / VariableStart / BlockStart in the template state (C01.P18 keeps the lexer's own panic out)"),
    "minijinja::syntax::imp::SyntaxConfig::pattern_to_marker": (1, "pattern ids come from the automaton built over at most five start delimiters"),
}
ZERO_PANICS = ("windows", "chunks", "chunks_exact", "rchunks", "step_by", "chunks_mut", "rchunks_exact")
REVIEWED_ZERO = {
    "minijinja::utils::memstr|windows": "the needle is a delimiter of the syntax configuration: the defaults are non-empty constants and SyntaxConfigBuilder::build rejects empty start and end delimiters",
    "minijinja::value::ops::range_step_backwards|step_by": "callers pass `step.unsigned_abs()` of a step that `slice` has tested against 0",
}


def check_front_end_panics(ctx, prog, tag=""):
    per = {}
    for f in prog.fns.values():
        if f.crate != "minijinja" or not f.loc.f.endswith(FRONT):
            continue
        for c in f.calls():
            if c.name.startswith("core::panicking::") or c.name.startswith("std::rt::begin_panic"):
                root = f.root or f.path
                per.setdefault(root, []).append((f, c))
    n = 0
    for root, sites in sorted(per.items()):
        n += len(sites)
        rev = REVIEWED_PANICS.get(root)
        ok = rev is not None and len(sites) <= rev[0]
        f, c = sites[0]
        ctx.ob("C01.P18.explicit-panic-of-the-front-end-is-reviewed", "%s%s|%d" % (tag, root, len(sites)), ok,
               ("reviewed: " + rev[1]) if ok else
               "%s has %d explicit panic site(s) (`panic!` / `unreachable!`) in code that processes template text or "
               "delimiters; %s: input that reaches one crashes the host" % (root.split("::")[-1], len(sites),
               "reviewed count is %d" % rev[0] if rev else "none is reviewed"), f.where(c.bb))
    return n


def _nonzero_evidence(f, bb, op):
    c = const_int(op)
    if c is not None:
        return "constant %d" % c if c != 0 else None
    thru = lambda k: 0 if k.name.split("::")[-1] in ("unsigned_abs", "abs", "into", "from", "unwrap", "try_into", "try_from", "get") else None
    keys = {o.key() for o in flow.origins(f, op, through_calls=thru)}
    srcs = flow.origins(f, op, through_calls=thru)
    if srcs and all(o.kind == "const" and const_int({"c": o.const}) not in (None, 0) for o in srcs):
        return "non-zero constants"
    for (sb, taken) in flow.guards(f, bb):
        cd = flow.cond_of(f, sb)
        side = flow.bool_true_labels(taken)
        if cd.kind == "discr" and (cd.adt or "").endswith("cmp::Ordering"):
            # `match x.cmp(&0) { Greater => .. }`: an arm other than Equal
            for o in flow.origins(f, {"cp": cd.place}):
                if o.kind == "call" and o.call.name.endswith("::cmp") and len(o.call.args) == 2:
                    def _is_zero(q):
                        if q.kind != "const":
                            return False
                        if const_int({"c": q.const}) == 0:
                            return True
                        rv_ = flow.promoted_rvalue(f, q.const)
                        return rv_ is not None and rv_.get("k") == "use" and const_int(rv_["op"]) == 0
                    zero = any(_is_zero(q) for q in flow.origins(f, o.call.args[1]))
                    same = {q.key() for q in flow.origins(f, o.call.args[0], through_calls=thru)} & keys
                    listed = {v for v, _ in f.term(sb)["arms"]}
                    eq_taken = ("0" in taken) or ("otherwise" in taken and "0" not in listed)
                    if zero and same and not eq_taken:
                        return "an arm of `cmp(&0)` other than Equal"
            continue
        if cd.kind != "bin" or side is None or cd.rv["op"] not in ("Eq", "Ne", "Gt", "Lt", "Ge", "Le"):
            continue
        k = const_int(cd.rv["b"])
        if k is None:
            continue
        if not ({o.key() for o in flow.origins(f, cd.rv["a"], through_calls=thru)} & keys):
            continue
        truth = (side != cd.neg)
        op_ = cd.rv["op"]
        if (op_ == "Eq" and k == 0 and not truth) or (op_ == "Ne" and k == 0 and truth) or (op_ == "Gt" and k >= 0 and truth) \
                or (op_ == "Ge" and k >= 1 and truth) or (op_ == "Lt" and k <= 1 and not truth and k >= 1) or (op_ == "Le" and k >= 0 and not truth):
            return "dominating test excludes 0"
    return None


def check_zero_sizes(ctx, prog, tag=""):
    n = 0
    for f in sorted(prog.fns.values(), key=lambda g: g.path):
        if f.crate not in ("minijinja", "minijinja_contrib"):
            continue
        for c in f.calls():
            last = c.name.split("::")[-1]
            if last not in ZERO_PANICS or len(c.args) < 2 or not (c.name.startswith("core::slice::") or "Iterator::step_by" in c.name):
                continue
            n += 1
            ev = _nonzero_evidence(f, c.bb, c.args[1])
            key = "%s|%s" % (f.path, last)
            if not ev and f.kind == "closure":
                # structural (not keyed by a closure number): the size is the step its function tested against 0 before
                # it built the closure
                from . import c09 as _c09
                if _c09.step_capture_is_tested(prog, f, c.args[1]):
                    ev = "captured step, tested against 0 before the closure was built"
                    key = "%s|%s" % ((f.root or f.path) + "::{closure}", last)
            why = ev or (REVIEWED_ZERO.get(key) and "reviewed - " + REVIEWED_ZERO[key])
            ctx.ob("C01.P20.size-that-panics-on-zero-is-non-zero", tag + key, bool(why),
                   ("accepted: " + why) if why else
                   "%s calls %s with a size that is neither a non-zero constant nor under a test that excludes 0 (and has no "
                   "reviewed reason): `%s(0)` panics" % (f.path.split("::")[-1], last, last), f.where(c.bb))
    return n
