"""C20 — the auto-reloader never loses a reload request.

Structural clauses decided on the MIR of minijinja-autoreload (all paths of acquire_env / Notifier):
 A1 reset-before-rebuild: every `should_reload = false` write is in `acquire_env` or in a function called only from
    it (the functions are found by the write, not by name); each reset site dominates the creator call and
    `clear_templates` and is not reachable from them again (a request arriving during the rebuild leaves the flag
    set).
 A2 rebuild-only-on-demand: creator / clear_templates are unreachable once the true edges of
    `cached.is_none()` and `notifier.should_reload()` are removed.
 A3 every access to a NotifierImpl field goes through a MutexGuard deref; the guard taken at entry is the one moved
    into the returned EnvironmentGuard.
 A4 no path loses the request: from the reset, every path to a return replaces the cached environment, clears its
    templates, or sets the flag again.
 A5 request_reload and the fs-watcher callback set the flag on every path on which the notifier is alive.
The interleaving argument over these facts is on paper (DESIGN.md); no schedule is explored.
"""
from .. import cfg, flow, errflow
from ..facts import op_place, const_int

ACQ = "minijinja_autoreload::AutoReloader::acquire_env"
REQ = "minijinja_autoreload::Notifier::request_reload"
SHOULD = "minijinja_autoreload::Notifier::should_reload"
IMPL = "minijinja_autoreload::NotifierImpl"
CLEAR = "minijinja::environment::Environment::clear_templates"
DEREFS = ("<std::sync::poison::mutex::MutexGuard<'_, T> as core::ops::deref::Deref>::deref",
          "<std::sync::poison::mutex::MutexGuard<'_, T> as core::ops::deref::DerefMut>::deref_mut")


_FLAG = {}


def flag_field(prog, adt=IMPL, crate="minijinja_autoreload"):
    """the name of the reload flag, found by role: the bool field of NotifierImpl that the public `request_reload`
    (or a function of the crate it calls) sets to `true`.  A renamed field is still the flag."""
    if id(prog) in _FLAG:
        return _FLAG[id(prog)]
    a = prog.adts.get(adt)
    bools = [fl["name"] for v in (a or {}).get("variants", []) for fl in v["fields"] if fl["ty"].get("prim") == "bool"]
    seen, work = set(), [REQ]
    for _ in range(3):
        nxt = []
        for path in work:
            f = prog.fns.get(path)
            if f is None or path in seen:
                continue
            seen.add(path)
            nxt += [c.resolved or c.path for c in f.calls() if (c.resolved or c.path or "").startswith(crate + "::")]
        work = nxt
    hits = []
    for path in sorted(seen):
        f = prog.fns[path]
        for bb, i, st in f.all_stmts():
            pr = st.get("place", {}).get("p", []) if st["k"] == "assign" else []
            if pr and isinstance(pr[-1], dict) and pr[-1].get("of") == adt and pr[-1].get("n") in bools and \
                    st["rv"]["k"] == "use" and const_int(st["rv"]["op"]) == 1:
                hits.append(pr[-1]["n"])
    name = hits[0] if hits and len(set(hits)) == 1 else "should_reload"
    _FLAG[id(prog)] = name
    return name


def flag_writes(prog, crate="minijinja_autoreload", field=None, adt=IMPL):
    """[(fn, bb, value)] for every assignment to the reload flag of NotifierImpl; value 0/1/None"""
    out = []
    if field is None:
        field = flag_field(prog) if adt == IMPL else "should_reload"
    for f in prog.fns.values():
        if f.crate != crate:
            continue
        for bb, i, s in f.all_stmts():
            if s["k"] != "assign":
                continue
            pr = s["place"].get("p", [])
            if pr and isinstance(pr[-1], dict) and pr[-1].get("n") == field and pr[-1].get("of") == adt:
                v = const_int(s["rv"]["op"]) if s["rv"]["k"] == "use" else None
                out.append((f, bb, v))
    return out


CALLS_CLOSURE = ("core::ops::function::FnOnce::call_once", "core::ops::function::FnMut::call_mut", "core::ops::function::Fn::call")


def _under_guard(prog, f, o, depth=3):
    """the NotifierImpl behind origin `o` of fn `f` is the inside of a held MutexGuard: the deref of a guard, or a
    parameter of a private function / closure that every call site fills with one (`with_state(|state| ..)`)"""
    if o.kind == "call":
        return o.call.name in DEREFS
    if o.kind != "arg" or depth == 0 or any(isinstance(x, str) and x != "*" for x in o.proj):
        return False
    if f.kind == "closure":
        # who invokes the closure: the callee it is handed to, or its own parent
        k = o.arg - 2
        if k < 0:
            return False
        parent = prog.fns.get(f.root)
        if parent is None:
            return False
        sites = []      # (fn, call of call_once.., tuple position)
        for host in [parent] + [h for h in prog.closures_of(parent.path) if h is not f]:
            for c in host.calls():
                for j, a in enumerate(c.args):
                    if not any(x.kind == "agg" and x.rv.get("closure") == f.path for x in flow.origins(host, a)):
                        continue
                    if c.name in CALLS_CLOSURE and j == 0:
                        sites.append((host, c))
                        continue
                    callee = prog.fns.get(c.resolved or c.path) or prog.fns.get(c.name)
                    if callee is None or callee.crate != f.crate:
                        return False        # handed to code that is not analysed here
                    inner = [k_ for k_ in callee.calls() if k_.name in CALLS_CLOSURE and any(
                        x.kind == "arg" and x.arg == j + 1 and not x.proj for x in flow.origins(callee, k_.args[0]))]
                    if not inner:
                        return False
                    sites += [(callee, k_) for k_ in inner]
        if not sites:
            return False
        for host, c in sites:
            tup = [x for x in flow.origins(host, c.args[1]) if x.kind == "agg"]
            if len(tup) != 1 or k >= len(tup[0].rv["ops"]):
                return False
            os_ = flow.origins(host, tup[0].rv["ops"][k])
            if not os_ or not all(_under_guard(prog, host, x, depth - 1) for x in os_):
                return False
        return True
    callers = [c for c in prog.callers().get(f.path, [])]
    if not callers or f.is_pub:
        return False
    for c in callers:
        if o.arg - 1 >= len(c.args):
            return False
        os_ = flow.origins(c.fn, c.args[o.arg - 1])
        if not os_ or not all(_under_guard(prog, c.fn, x, depth - 1) for x in os_):
            return False
    return True


def impl_accesses(prog, adt=IMPL, crate="minijinja_autoreload"):
    """(fn, bb, base local) of every place that projects a field of NotifierImpl"""
    out = []

    def scan_place(f, bb, p):
        pr = p.get("p", [])
        for e in pr:
            if isinstance(e, dict) and e.get("of") == adt:
                out.append((f, bb, p))
                return

    for f in prog.fns.values():
        if f.crate != crate or (f.trait or "").endswith("Default"):
            continue
        for bb, i, s in f.all_stmts():
            if s["k"] != "assign":
                continue
            scan_place(f, bb, s["place"])
            rv = s["rv"]
            if rv["k"] in ("ref", "discr", "rawptr"):
                scan_place(f, bb, rv["place"])
            for o in errflow._rv_operands(rv):
                p = op_place(o)
                if p:
                    scan_place(f, bb, p)
        for c in f.calls():
            for a in c.args:
                p = op_place(a)
                if p:
                    scan_place(f, c.bb, p)
    return out


def creator_calls(f):
    out = []
    for c in f.calls():
        if c.name.endswith("core::ops::function::Fn<Args>>::call") or c.indirect:
            tgt = c.args[0] if c.args else None
            if c.indirect and "place" in c.callee:
                tgt = {"cp": c.callee["place"]}
            if tgt is None:
                continue
            for o in flow.origins(f, tgt):
                if "env_creator" in o.proj:
                    out.append(c)
    return out


def run(ctx):
    ctx.explain("C20: dominance / must-pass-through / who-may-write rules on acquire_env and Notifier: the flag reset "
                "precedes the rebuild on every path and is never repeated after it; rebuilds are control-dependent "
                "on (no cached env || should_reload()); every path from the reset to a return replaces or clears the "
                "cached environment or re-arms the flag; all NotifierImpl accesses are under its mutex; both request "
                "entry points set the flag.  Decides the code shape the interleaving argument rests on for all "
                "paths; schedules themselves are not explored.")
    ctx.assume("the interleaving argument (a request before the reset is followed by the rebuild, one after it leaves "
               "the flag set) is a paper argument over the checked facts")
    # A9 (after seed C20-9): with fast reload "reloaded" means `clear_templates()`.  The environment handed out after a
    # request reflects the request only if that call empties everything a lookup can have recorded: both template tiers,
    # and nothing else is recorded by a lookup (a negative cache that `clear()` does not know keeps a template "missing"
    # after it appeared).  The store rules of C15 (U2 clearing, U8 what a lookup may record) are clauses of this property.
    if not ctx.is_borrowed:
        from . import c15 as _c15
        _c15.run(ctx.borrowed("C15", "C20.A9:", only=lambda rule, inst: rule.startswith(("C15.U2.clear", "C15.U8."))))
    # acquire_env, request_reload and the watcher callback are read through the private helpers of the crate that parts
    # of them may have been moved into (`refresh_env(&mut slot)`).  Functions that write the flag themselves stay calls:
    # the rules below find them by that write (resetters, setters) and reason about their call sites.
    from .. import inline
    base = ctx.prog
    flaggers = {f.path for f, _, _ in flag_writes(base)}
    # a function that writes the flag through a closure it hands to a helper (`self.with_state(|s| s.should_reload = true)`)
    # is a flag writer like one that writes it itself
    flaggers |= {f.root for f, _, _ in flag_writes(base) if f.kind == "closure" and f.root}
    anchors = [ACQ, REQ, SHOULD] + [k for k, f_ in base.fns.items() if f_.crate == "minijinja_autoreload" and "with_fs_watcher" in k]
    prog = inline.Overlay(base, anchors, keep=lambda t: not t.startswith("minijinja_autoreload::") or t in flaggers or t in (
        "minijinja_autoreload::Notifier::handle", SHOULD, REQ, ACQ, "minijinja_autoreload::Notifier::fast_reload"), closures=True)
    acq = prog.fn(ACQ)

    writes = flag_writes(prog)
    resets = [(f, bb) for f, bb, v in writes if v == 0]
    sets = [(f, bb) for f, bb, v in writes if v == 1]
    odd = [(f, bb) for f, bb, v in writes if v not in (0, 1)]
    ctx.floor("C20 writes of should_reload", len(writes), 3)
    for f, bb in odd:
        ctx.ob("C20.A1.flag-write-is-constant", f.path, False, "should_reload written with a non-constant", f.where(bb))
    # A1
    # the functions that reset the flag are found by what they do (a `should_reload = false` write), not by name;
    # a reset *site* is the write itself when it is in acquire_env, else the call of the resetting function
    class Site:
        def __init__(self, bb, name, call=None):
            self.bb, self.name, self.call = bb, name, call
    resetters = sorted({f.path for f, _ in resets})
    preps = [Site(bb, "should_reload = false") for f, bb in resets if f.path == ACQ]
    for r in resetters:
        if r == ACQ:
            continue
        cs = prog.calls_of(r)
        ctx.ob("C20.A1.resetter-is-reachable", r, bool(cs), "function resets the flag but is never called", prog.fn(r).loc)
        for c in cs:
            ctx.ob("C20.A1.reset-called-only-by-acquire", "%s<-%s" % (r.split("::")[-1], c.fn.path), c.fn.path == ACQ,
                   "`should_reload = false` (through %s) outside acquire_env: a pending request can be erased "
                   "without a rebuild" % r, c.fn.where(c.bb))
            if c.fn.path == ACQ:
                preps.append(Site(c.bb, r, c))
    ctx.ob("C20.A1.acquire-resets-flag", ACQ, bool(preps),
           "acquire_env never resets should_reload: every later acquire_env would rebuild although nothing was "
           "requested", acq.loc)
    creators = creator_calls(acq)
    clears = acq.calls_to(CLEAR)
    ctx.floor("C20 creator call sites in acquire_env", len(creators), 1)
    ctx.floor("C20 clear_templates call sites in acquire_env", len(clears), 1)
    for kind, cs in (("creator", creators), ("clear_templates", clears)):
        for n, c in enumerate(cs):
            ctx.ob("C20.A1.reset-dominates-rebuild", "%s#%d" % (kind, n),
                   any(cfg.dominates(acq, pc.bb, c.bb) for pc in preps),
                   "the flag reset does not dominate this rebuild", acq.where(c.bb))
            ctx.ob("C20.A1.no-reset-after-rebuild", "%s#%d" % (kind, n),
                   not any(pc.bb in cfg.reach_from_succs(acq, c.bb) for pc in preps),
                   "a flag reset is reachable after the rebuild: a request that arrived "
                   "during the rebuild is erased", acq.where(c.bb))
    if not preps:
        return
    pc = min(preps, key=lambda c: c.bb)
    for c2 in preps:
        if all(cfg.dominates(acq, c2.bb, o.bb) for o in preps):
            pc = c2
    # functions called after the creator must not reset either (callee-level): resets are only in PREP (above)

    # A2: rebuild only on demand
    removed = set()
    demand = []
    for bb in sorted(acq.reachable):
        t = acq.term(bb)
        if t["k"] != "switch":
            continue
        cd = flow.cond_of(acq, bb)
        if cd.kind == "call" and (cd.call.name == SHOULD or (cd.call.name == "core::option::Option::is_none" and any(
                o.kind == "call" and o.call.name in DEREFS for o in flow.origins(acq, cd.call.args[0])))):
            if not cfg.dominates(acq, pc.bb, bb):    # the demand test, not the fast-reload test after the reset
                demand.append(cd.call.name)
                for v, x in t["arms"]:
                    if (v != "0") != cd.neg:
                        removed.add((bb, x))
                if not cd.neg:
                    removed.add((bb, t["otherwise"]))
                else:
                    for v, x in t["arms"]:
                        if v == "0":
                            removed.add((bb, x))
    ctx.count("C20.A2 demand tests before the reset", len(demand))
    seen = {0}
    st = [0]
    while st:
        b = st.pop()
        for s in acq.succ[b]:
            if (b, s) in removed or s in seen:
                continue
            seen.add(s)
            st.append(s)
    for kind, cs in (("creator", creators), ("clear_templates", clears), ("prepare", preps)):
        for n, c in enumerate(cs):
            ctx.ob("C20.A2.rebuild-only-on-demand", "%s#%d" % (kind, n), c.bb not in seen,
                   "reachable without `cached.is_none()` or `should_reload()` being true", acq.where(c.bb))

    # A6: the reload decision is taken while the environment lock is held.  A decision polled before `cached_env.lock()`
    # is stale by the time the lock is acquired: a request that returned in between is not honoured by this acquire
    # (and two waiters that both polled "reload" rebuild twice for one request).
    MLOCK = "std::sync::poison::mutex::Mutex::lock"

    def env_lock_wrappers():
        """functions of the crate that return the guard of `self.cached_env.lock()`: {path: how the LockResult is consumed}"""
        out = {}
        for g in prog.fns.values():
            if g.crate != "minijinja_autoreload" or g.kind == "closure":
                continue
            for o in flow.origins(g, 0):
                if o.kind != "call":
                    continue
                for o2 in flow.origins(g, o.call.args[0]) if o.call.args else []:
                    if o2.kind == "call" and o2.call.name == MLOCK and any(
                            "cached_env" in x.proj for x in flow.origins(g, o2.call.args[0])):
                        out[g.path] = o.call.name
        return out
    wrappers = env_lock_wrappers()
    locks = [c for c in acq.calls() if (c.name == MLOCK and any(
        "cached_env" in o.proj for o in flow.origins(acq, c.args[0]))) or c.name in wrappers]
    ctx.floor("C20.A6 cached_env.lock() in acquire_env", len(locks), 1)
    # A7: a poisoned environment lock stays poisoned.  The pending flag is cleared before the creator runs and re-armed only
    # on its Err return; when the creator *panics* the flag stays cleared with the old environment in the slot.  As long
    # as the lock result is unwrapped the next acquire panics too and nothing stale is handed out; recovering the guard
    # from the PoisonError (`unwrap_or_else(PoisonError::into_inner)`, `into_inner`, `unwrap_or..`) serves the
    # pre-request environment for a request that has returned.
    n7 = 0
    for g in prog.fns.values():
        if g.crate != "minijinja_autoreload":
            continue
        for c in g.calls():
            if c.name != MLOCK or not any("cached_env" in o.proj for o in flow.origins(g, c.args[0])):
                continue
            n7 += 1
            users = [k for k in g.calls() if k.args and any(o.kind == "call" and o.call.bb == c.bb and o.call.name == MLOCK
                                                            for o in flow.origins(g, k.args[0]))]
            recovered = [k.name for k in users if not (k.name.endswith("Result::unwrap") or k.name.endswith("Result::expect"))]
            ctx.ob("C20.A7.poisoned-environment-lock-is-not-recovered", g.path.split("::")[-1], not recovered,
                   "the result of `cached_env.lock()` is consumed by %s: after a creator that panicked (flag cleared, old "
                   "environment still cached) the next acquire_env hands out the stale environment instead of failing"
                   % [x.split("::")[-1] for x in recovered], g.where(c.bb))
    ctx.floor("C20.A7 locks of the cached environment", n7, 1)
    polls = [c for c in acq.calls() if c.name == SHOULD]
    ctx.floor("C20.A6 should_reload() polls in acquire_env", len(polls), 1)
    for n_, c in enumerate(polls):
        ctx.ob("C20.A6.reload-decision-is-taken-under-the-env-lock", "should_reload#%d" % n_,
               any(cfg.dominates(acq, l.bb, c.bb) for l in locks),
               "should_reload() is polled before `cached_env.lock()`: while this thread waits for the lock a request can "
               "return, and the environment handed out afterwards predates it", acq.where(c.bb))

    # A3: NotifierImpl accesses under the mutex
    acc = impl_accesses(prog)
    ctx.floor("C20.A3 NotifierImpl field accesses", len(acc), 10)
    for f, bb, p in acc:
        os_ = flow.origins(f, p["l"])
        ok = bool(os_) and all(_under_guard(base, f, o) for o in os_)
        ctx.ob("C20.A3.access-under-lock", "%s|%s" % (f.path, ".".join(flow._proj_names(p))), ok,
               "NotifierImpl field reached through %r, not a MutexGuard" % os_, f.where(bb))
    # the guard locked at entry is the one handed out
    n = 0
    for bb, i, s in acq.all_stmts():
        rv = s.get("rv", {})
        if rv.get("k") == "agg" and rv.get("adt") == "minijinja_autoreload::EnvironmentGuard":
            n += 1
            os_ = flow.origins(acq, rv["ops"][0])
            if len(os_) == 1 and os_[0].kind == "call" and os_[0].call.name in wrappers:
                ctx.ob("C20.A3.guard-handed-out-is-entry-lock", "EnvironmentGuard#%d" % n, True, "through %s" % os_[0].call.name,
                       acq.where(bb))
                continue
            ok = len(os_) == 1 and os_[0].kind == "call" and os_[0].call.name == "core::result::Result::unwrap" and any(
                o.kind == "call" and o.call.name == "std::sync::poison::mutex::Mutex::lock" and "cached_env" in
                [x for oo in flow.origins(acq, o.call.args[0]) for x in oo.proj]
                for o in flow.origins(acq, os_[0].call.args[0]))
            ctx.ob("C20.A3.guard-handed-out-is-entry-lock", "EnvironmentGuard#%d" % n, ok, "origins %r" % os_,
                   acq.where(bb))
    ctx.floor("C20.A3 EnvironmentGuard constructions", n, 1)

    # A4: no path from the reset to a return loses the request
    setters = {f.path for f, _ in sets} | {f.root for f, _ in sets if f.kind == "closure" and f.root}
    split = errflow.ok_err_blocks(acq, pc.call) if pc.call is not None and \
        acq.locals[pc.call.dest["l"]].get("adt") == "core::result::Result" else None
    if split is None or not split[0]:
        split = (set(acq.succ[pc.bb]), set())
    events = set()
    for c in acq.calls():
        if c.name == CLEAR or c.name in setters:
            events.add(c.bb)
    for bb, i, s in acq.all_stmts():
        if s["k"] == "assign" and s["place"].get("p") == ["*"] and s["rv"]["k"] == "use":
            # `*guard = Some(env)`
            base = flow.origins(acq, s["place"]["l"])
            val = flow.origins(acq, s["rv"]["op"])
            if any(o.kind == "call" and o.call.name == DEREFS[1] for o in base) and any(
                    o.kind == "agg" and o.rv.get("variant") == "Some" for o in val):
                events.add(bb)
    ctx.floor("C20.A4 replace/clear/re-arm events", len(events), 2)
    rets = acq.returns()
    for start in sorted(split[0]):
        r = cfg.reach_from(acq, start, avoid=events)
        lost = sorted(b for b in r if b in rets)
        # report the offending exit: the last branch block before the return that is not covered
        where = None
        if lost:
            # find an Err-propagation block on the lost path for the report
            for b in sorted(r):
                for c in acq.calls():
                    if c.bb == b and "from_residual" in c.name:
                        where = acq.where(b)
        ctx.ob("C20.A4.no-path-loses-request", "acquire_env|after-reset", not lost,
               "a path from the flag reset reaches a return without replacing/clearing the cached environment or "
               "re-arming the flag (the failing-creator `?` exit): the next acquire_env serves the stale environment",
               where or acq.where(start))

    # A10 (round 11, seed C20-11): the poll answers "no reload" only after it has looked at the flag.  Every path of
    # `should_reload()` to a `false` verdict that is a constant passes a read of the flag field or lies on the side where the
    # reloader is gone (`handle()` is None).  A cheaper hint in front of the lock ("nothing was signalled") has to be raised
    # by every writer of the flag; the one on the error path of acquire_env was forgotten, and a failed rebuild lost the
    # request it had just re-armed.
    sf = prog.fn(SHOULD) if prog.has_fn(SHOULD) else None
    if sf is not None:
        fld = flag_field(ctx.prog)
        reads = set()
        for bb, i, st in sf.all_stmts():
            rv = st.get("rv") or {}
            pls = []
            if rv.get("k") in ("use", "cast") and isinstance(rv.get("op"), dict):
                q = op_place(rv["op"])
                if q is not None:
                    pls.append(q)
            if isinstance(rv.get("place"), dict):
                pls.append(rv["place"])
            for q in pls:
                if any(isinstance(e, dict) and e.get("n") == fld for e in q.get("p", [])):
                    reads.add(bb)
        for sb in sorted(sf.reachable):
            t = sf.term(sb)
            if t["k"] == "switch":
                q = op_place(t["discr"])
                if q is not None and any(isinstance(e, dict) and e.get("n") == fld for e in q.get("p", [])):
                    reads.add(sb)
        dead = set()
        for sb in sorted(sf.reachable):
            if sf.term(sb)["k"] != "switch":
                continue
            cd = flow.cond_of(sf, sb)
            if cd.kind == "discr" and cd.place is not None and any(
                    o.kind == "call" and o.call.name.endswith("Notifier::handle") for o in flow.origins(sf, {"cp": cd.place})):
                for v, x in sf.term(sb)["arms"]:
                    if v == "0":
                        dead |= cfg.region_dominated_by(sf, x)
                if not any(v == "0" for v, _ in sf.term(sb)["arms"]):
                    dead |= cfg.region_dominated_by(sf, sf.term(sb)["otherwise"])
        falses = [bb for bb, i, st in sf.all_stmts() if st["k"] == "assign" and st["place"] == {"l": 0} and st["rv"]["k"] == "use"
                  and const_int(st["rv"]["op"]) == 0]
        bad10 = [bb for bb in falses if bb not in dead and not cfg.paths_must_pass(sf, 0, reads, [bb])]
        # ... unless the early "no" rests on a hint that every writer of the flag raises: the unbacked exit is on the false
        # side of a read of an atomic field H (`dirty.swap(false)` / `load`), and each place that sets the flag to true also
        # stores `true` into H (an `AtomicBool::store(.., true)` on that field in the same function).  Then the hint is
        # exact, and the rule has nothing to say.
        if bad10:
            hints = set()
            for bb in bad10:
                for gf in flow.guard_facts(ctx.prog, sf, bb):
                    if gf[0] == "call" and gf[2] is False and "Atomic" in gf[1] and gf[1].rsplit("::", 1)[-1] in ("swap", "load", "fetch_and", "compare_exchange"):
                        for o in flow.origins(sf, gf[3].args[0], through_calls=lambda q: 0 if q.name.endswith(("::deref", "::as_ref")) else None):
                            if o.kind == "arg" and o.proj:
                                hints.add([x for x in o.proj if not x.startswith("as ")][-1])
            covered = bool(hints)
            for (wf, wbb, wv) in flag_writes(ctx.prog):
                if wv == 0:
                    continue
                raised = False
                host = ctx.prog.fns.get(wf.root) if wf.kind == "closure" and wf.root else wf
                for g in [wf, host]:
                    for c in g.calls():
                        if "Atomic" in c.name and c.name.rsplit("::", 1)[-1] == "store" and len(c.args) >= 2 and const_int(c.args[1]) == 1:
                            for o in flow.origins(g, c.args[0], through_calls=lambda q: 0 if q.name.endswith(("::deref", "::as_ref")) else None):
                                names = set(o.proj) if o.kind == "arg" else set()
                                if g.kind == "closure" and o.kind == "arg" and o.arg == 1:
                                    names |= {"*"}
                                if names & hints or ("*" in names):
                                    raised = True
                if not raised:
                    covered = False
            if covered:
                bad10 = []
        ctx.ob("C20.A10.no-reload-is-answered-only-after-the-flag-was-read", SHOULD, bool(reads) and not bad10,
               "a path of the poll returns `false` without having read the flag (%d constant-false exits, %d of them unbacked): "
               "a request that was recorded is not seen" % (len(falses), len(bad10)), sf.where(bad10[0] if bad10 else 0))
    # A8 (after seed C20-8): "alive" means the reloader still exists.  `Notifier::handle()` is the one place that decides
    # it: every value it returns is `Some(..)` of the strong handle or the result of `Weak::upgrade()` unchanged - no
    # other condition (a generation stamp, a flag) can make a notifier of a live reloader drop requests silently.
    hf = ctx.prog.fns.get("minijinja_autoreload::Notifier::handle")
    if hf is not None:
        from .. import inline as _inl
        hv = _inl.view(ctx.prog, hf, keep=("upgrade", "clone"))
        rets = flow.origins(hv, 0)
        bad8 = []
        for r in rets:
            if r.kind == "call" and r.call.name.endswith("Weak<T, A>::upgrade") or (r.kind == "call" and r.call.name.endswith("::upgrade")):
                continue
            if r.kind == "agg" and r.rv.get("variant") == "Some":
                continue
            if r.kind == "agg" and r.bb is not None:
                # a `None` that no kind of handle can reach (`let Weak(w) = self.handle else { return None }` behind
                # the test for the other variant): the dominating matches on the handle leave no variant over
                HADT = "minijinja_autoreload::NotifierImplHandle"
                if ctx.prog.adts.get(HADT):
                    feas = set(ctx.prog.variants(HADT))
                    for (sb, taken) in flow.guards(hv, r.bb):
                        cd = flow.cond_of(hv, sb)
                        if cd.kind == "discr" and cd.adt == HADT:
                            feas &= set(flow.taken_variants(ctx.prog, hv, sb, taken, HADT) or feas)
                    if not feas:
                        continue
            bad8.append(repr(r)[:120])
        ctx.ob("C20.A8.notifier-is-dead-only-when-the-reloader-is-gone", hf.path, bool(rets) and not bad8,
               "Notifier::handle() can answer None for another reason than a dropped reloader (%s): request_reload() through such "
               "a notifier returns normally without setting the flag, the request is lost" % bad8, hf.loc)
    # A5: both request entry points set the flag whenever the notifier is alive
    req = prog.fn(REQ)
    req_sets = [bb for f, bb in sets if f.path == REQ]
    # ... or through a function of the crate that sets the flag on every path through it (`signal_reload(&handle)`)
    sure_setters = set()
    for g_path in {f.path for f, _ in sets}:
        g_ = prog.fn(g_path)
        ws_ = [bb for f, bb in sets if f.path == g_path]
        if g_path not in (REQ,) and cfg.paths_must_pass(g_, 0, ws_, g_.returns()):
            sure_setters.add(g_path)
    req_sets += [c.bb for c in req.calls() if c.name in sure_setters]
    ctx.ob("C20.A5.request-sets-flag", REQ, bool(req_sets), "request_reload no longer sets should_reload", req.loc)
    if req_sets:
        # every path from the Some arm of handle() to a return passes the write
        hs = [c for c in req.calls() if c.name == "minijinja_autoreload::Notifier::handle"]
        ctx.need(len(hs) == 1, "C20.A5: request_reload must call handle() once")
        sp = errflow.result_split(req, hs[0].dest["l"])
        ctx.need(sp.switches, "C20.A5: handle() result is not matched")
        ok = True
        for (sb, none_t, some_t, other, adt) in sp.switches:
            for st_ in some_t:
                if not cfg.paths_must_pass(req, st_, req_sets, req.returns()):
                    ok = False
        ctx.ob("C20.A5.request-sets-flag-on-all-paths", REQ, ok,
               "a path through request_reload with a live notifier skips the flag write", req.loc)
    fs_sets = [(f, bb) for f, bb in sets if "with_fs_watcher" in f.path]
    fs_sets += [(g_, c.bb) for k_, g_ in prog.fns.items() if "with_fs_watcher" in k_ for c in g_.calls() if c.name in sure_setters]
    if any("with_fs_watcher" in k for k in prog.fns):
        ctx.ob("C20.A5.fs-callback-sets-flag", "with_fs_watcher", bool(fs_sets),
               "the file-watcher callback no longer sets should_reload", "")
    ctx.count("functions analysed", len([f for f in prog.fns.values() if f.crate == "minijinja_autoreload"]))
    ctx.sample({"flag setters": sorted(setters), "resetters": resetters, "demand tests": demand,
                "events": sorted(acq.where(b) for b in events)})
