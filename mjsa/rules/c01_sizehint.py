"""C01.P19 — the length an engine iterator *claims* is backed by memory, or clamped.

`collect::<Vec<_>>()`, `Vec::extend` and friends reserve the lower bound of `Iterator::size_hint` up front.  For an
iterator over data that exists that is fine.  An engine iterator whose `size_hint` returns a *stored number* (the virtual
length of a lazily repeated sequence, `[1] * 4611686018427387904`) makes every such consumer allocate what the template
chose: `capacity overflow` (a panic) or an allocation the process does not survive.

Rule: for every `Iterator::size_hint` of the engine, the lower bound it returns is a constant, the answer of the iterator
it wraps (a delegated `size_hint` / `len`), or passed through `untrusted_size_hint` / `min`; a bare field is reported.
"""
from .. import flow
from ..facts import op_place

DELEGATES = ("size_hint", "len", "min", "untrusted_size_hint", "saturating_sub", "count")


def _counted_payload(prog, o):
    """the origin is a payload position of an enum variant of `self` (`(self.imp as Chars).1`) and every aggregate of that
    variant in the program stores the `count()` / `len()` of data there: the number is backed by memory"""
    if o.kind != "arg" or not o.proj:
        return False
    var = [x[3:] for x in o.proj if x.startswith("as ")]
    idx = [x for x in o.proj if x.isdigit()]
    if len(var) != 1 or not idx:
        return False
    sites = 0
    for g in prog.fns.values():
        if g.crate not in ("minijinja", "minijinja_contrib"):
            continue
        for bb, i, st in g.all_stmts():
            rv = st.get("rv")
            if rv and rv["k"] == "agg" and rv.get("agg") == "adt" and rv.get("variant") == var[0] and int(idx[-1]) < len(rv["ops"]):
                op = rv["ops"][int(idx[-1])]
                sites += 1
                if "c" in op:
                    continue
                os_ = flow.origins(g, op)
                if not os_ or not all(q.kind == "call" and q.call.name.split("::")[-1] in ("count", "len") for q in os_):
                    return False
    return sites > 0


def check_size_hints(ctx, prog, tag=""):
    n = 0
    for k, f in sorted(prog.fns.items()):
        if f.crate not in ("minijinja", "minijinja_contrib") or not k.endswith("::size_hint") or "Iterator" not in k:
            continue
        n += 1
        bad = []
        for o in flow.origins(f, 0):
            if o.kind == "call" and o.call.name.split("::")[-1] in DELEGATES:
                continue
            if o.kind == "agg" and o.rv.get("agg") == "tuple" and o.rv["ops"]:
                low = o.rv["ops"][0]
                if "c" in low:
                    continue
                srcs = flow.origins(f, low)
                if srcs and all((s.kind == "call" and s.call.name.split("::")[-1] in DELEGATES) or s.kind == "const" for s in srcs):
                    continue
                if srcs and all(_counted_payload(prog, s) for s in srcs):
                    continue            # the payload of an enum variant that every construction site fills with a count of data it holds
                bad += [repr(s)[:80] for s in srcs if not (s.kind == "call" or s.kind == "const")] or ["?"]
                continue
            bad.append(repr(o)[:80])
        short = k.split(" as ")[0].lstrip("<")
        ctx.ob("C01.P19.claimed-length-is-backed-by-memory-or-clamped", tag + short, not bad,
               "%s::size_hint reports a stored number as its lower bound (%s): consumers that reserve by the size hint "
               "(`collect`, `extend`) allocate what the template chose - `{{ ([1] * 4611686018427387904)|list }}` panics with "
               "`capacity overflow`" % (short, bad), f.loc)
    return n
