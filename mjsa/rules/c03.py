"""C03 — core language constructs render according to the documented semantics (partial: scoping skeleton only).

What a template prints is a function of run-time values and is NOT decided here (no reference interpreter: that is
another technique).  Three clauses of the property are statements about the shape of the engine on every path, and
they are the ones the mechanisms the property names (back-patched jumps, frame stack, macro closures) implement:

 * "assignments made inside loops, with-blocks, macros and blocks are invisible outside them" - every frame / capture /
   auto-escape scope the code generator opens is closed on every path, break / continue close what they leave, the
   interpreter's pairs are balanced on every path, nested evaluations run on a state that is restored
   (the rules of C05, run here as clauses `C03.F:`);
 * "the operand a construct leaves behind" - statement-level operand-stack balance of the generator, recursive loop
   invocations (C05.B6 / B11, same prefix);
 * an expression over literals gives what the same expression over variables gives (constant folder vs interpreter: the
   rules of C04 as `C03.K:`);
 * "macros see the variables they enclose", "assignments inside if-branches persist" - the assignment tracker that
   computes macro closures mirrors the engine: pre-assigned names are bound where the engine binds them, its scopes end
   where the engine's frames end, every free name is enclosed, statements that run only behind a conditional jump are
   walked in a scope of their own, the loop variable is resolved frame by frame (C18.W5 / W6 / W7 / W8 / W10 as `C03.M:`).

Not decided: loop.index / revindex / previtem / nextitem arithmetic, for-else, argument binding of macros, filters and
tests, i.e. everything that is data flow over run-time values (DESIGN.md section 4).
"""

MACRO_RULES = ("C18.W5.", "C18.W6.", "C18.W7.", "C18.W8.", "C18.W10.", "C18.W2.")


def check_exact_size_hints(ctx, prog):
    """L1: the loop object takes the length of the sequence from the iterator's size hint and trusts it only when lower and
    upper bound agree (`LoopState::new`).  An engine iterator that *knows* how many items are left - its upper bound is
    `Some(stored count)` - and reports 0 as the lower bound makes loop.length / revindex / revindex0 undefined and
    loop.last never true for that kind of sequence: they no longer describe the sequence that is iterated."""
    from .. import flow
    n = 0
    for k, f in sorted(prog.fns.items()):
        if f.crate not in ("minijinja", "minijinja_contrib") or not k.endswith("::size_hint") or "Iterator" not in k:
            continue
        for o in flow.origins(f, 0):
            if not (o.kind == "agg" and o.rv.get("agg") == "tuple" and len(o.rv["ops"]) == 2):
                continue
            low, up = o.rv["ops"]
            ups = flow.origins(f, up) if "c" not in up else []
            stored = []
            for u in ups:
                if u.kind == "agg" and u.rv.get("variant") == "Some" and u.rv["ops"] and "c" not in u.rv["ops"][0]:
                    stored += [q for q in flow.origins(f, u.rv["ops"][0]) if q.kind == "arg" and q.proj]
            if not stored:
                continue
            n += 1
            lows = flow.origins(f, low) if "c" not in low else []
            exact = bool(lows) and {q.key() for q in lows} == {q.key() for q in stored}
            ctx.ob("C03.L1.known-length-is-reported-as-exact", "%s|%s" % (k.split(" as ")[0].lstrip("<"), ".".join(stored[0].proj)), exact,
                   "the upper bound of this size hint is the stored number of remaining items, the lower bound is %s: the loop "
                   "object only trusts a hint whose bounds agree, so loop.length / revindex / last are undefined for this "
                   "sequence" % ("the same number" if exact else ("the constant %s" % low.get("c", {}).get("int") if "c" in low else "something else")),
                   f.where(o.bb if o.bb is not None else 0))
    return n


def check_loop_counters(ctx, prog):
    """L2: the numeric attributes of the loop object are views of one counter and one length.  Their expressions are
    extracted symbolically from MIR (through the `map` closures over the optional length) and must stand in the documented
    relations: index = index0 + 1, revindex0 = revindex - 1 (saturating), depth = depth0 + 1, first = (index0 == 0).  An
    off-by-one in one of a pair is a disagreement between siblings, whatever the sequence is."""
    from .. import flow
    from ..facts import op_place
    host = None
    for k, f in prog.fns.items():
        if f.crate == "minijinja" and f.kind != "closure" and k.endswith("::get_value_by_str") and "loop_object" in f.loc.f:
            host = f
    if host is None:
        return 0
    closures = prog.closures_of(host.path)

    def sym(g, op, depth=0):
        if depth > 8:
            return "?"
        if "c" in op:
            c = op["c"]
            return str(c.get("int", "?"))
        outs = set()
        for o in flow.origins(g, op):
            if o.kind == "const":
                outs.add(str(o.const.get("int", "?")))
            elif o.kind == "bin":
                a, b = sym(g, o.rv["a"], depth + 1), sym(g, o.rv["b"], depth + 1)
                opn = {"Add": "+", "AddWithOverflow": "+", "Sub": "-", "SubWithOverflow": "-", "Eq": "==", "Ne": "!="}.get(o.rv["op"], o.rv["op"])
                outs.add("(%s%s%s)" % (a, opn, b))
            elif o.kind == "call":
                nm = o.call.name.rsplit("::", 1)[-1]
                if nm == "load":
                    outs.add("idx")
                elif nm in ("saturating_sub", "wrapping_sub", "checked_sub"):
                    outs.add("ssub(%s,%s)" % (sym(g, o.call.args[0], depth + 1), sym(g, o.call.args[1], depth + 1)))
                elif nm in ("from", "into", "clone", "deref"):
                    outs.add(sym(g, o.call.args[0], depth + 1))
                else:
                    outs.add("call:" + nm)
            elif o.kind == "arg":
                if g.kind == "closure" and o.arg == 2:
                    outs.add("len")
                elif g.kind == "closure" and o.arg == 1 and o.proj and o.proj[0].isdigit():
                    caps = flow.closure_captures(prog, g)
                    h = prog.fns.get(g.parent)
                    i = int(o.proj[0])
                    if h is not None and i < len(caps):
                        for co in caps[i]:
                            if co.kind == "call" and co.call.name.rsplit("::", 1)[-1] == "load":
                                outs.add("idx")
                            elif co.kind == "arg":
                                outs.add("self." + ".".join(x for x in co.proj if not x.startswith("as ")))
                            else:
                                outs.add(co.kind)
                    else:
                        outs.add("cap")
                else:
                    outs.add("self." + ".".join(x for x in o.proj if not x.startswith("as ")))
            else:
                outs.add(o.kind)
        return "|".join(sorted(outs)) if outs else "?"

    def attr_at(bb):
        names = set()
        for gf in flow.guard_facts(prog, host, bb):
            if gf[0] == "call" and gf[2] is True and gf[1].endswith("::eq"):
                for a in gf[3].args:
                    for o in (flow.origins(host, a) if "c" not in a else [flow.Origin("const", const=a["c"])]):
                        if o.kind == "const":
                            s_ = flow.const_str({"c": o.const}, host)
                            if s_:
                                names.add(s_)
        return names

    exprs = {}
    for g in [host] + closures:
        for c in g.calls():
            if "convert::From<" not in c.name or not c.name.endswith("for minijinja::value::Value>::from") or not c.args:
                continue
            if g is host:
                where = c.bb
            else:
                where = None
                for bb, i, st in host.all_stmts():
                    rv = st.get("rv")
                    if rv and rv["k"] == "agg" and rv.get("closure") and g.path.endswith(rv["closure"].rsplit("::", 1)[-1]):
                        where = bb
            if where is None:
                continue
            for nm in attr_at(where):
                exprs.setdefault(nm, set()).add(sym(g, c.args[0]))
    n = 0

    def rel(name, a, b, build):
        nonlocal n
        if a not in exprs or b not in exprs:
            return
        n += 1
        want = {build(x) for x in exprs[b]}
        ctx.ob("C03.L2.loop-counters-differ-by-one", name, exprs[a] == want,
               "loop.%s is %s, loop.%s is %s: expected %s" % (a, sorted(exprs[a]), b, sorted(exprs[b]), sorted(want)), host.where(0))
    rel("index=index0+1", "index", "index0", lambda x: "(%s+1)" % x)
    rel("revindex0=revindex-1", "revindex0", "revindex", lambda x: "ssub(%s,1)" % x)
    rel("depth=depth0+1", "depth", "depth0", lambda x: "(%s+1)" % x)
    rel("first=(index0==0)", "first", "index0", lambda x: "(%s==0)" % x)
    ctx.sample({"loop attribute expressions": {k: sorted(v) for k, v in sorted(exprs.items())}})
    return n


def check_did_not_iterate(ctx, prog):
    """L3: a for-else branch runs when the loop did not iterate.  The function that answers that question for the
    interpreter (found by role: what the `PushDidNotIterate` handler calls) must decide by something that is recorded
    *under the iterator's answer* - in the loop state's `next()`, at least one write to the state it reads is
    control-dependent on whether the wrapped iterator yielded an item.  A counter that is bumped before the iterator is
    asked tells "next() was called once" (true while the first item is being processed: a `break` there ran the else
    branch), not "nothing was yielded"."""
    from .. import flow, arms as _arms, cfg as _cfg
    INSTR = "minijinja::compiler::instructions::Instruction"
    ev = prog.fns.get("minijinja::vm::Executor::eval_impl")
    if ev is None:
        return 0
    sw = _arms.enum_switches(prog, ev, INSTR)
    if not sw:
        return 0
    regs = _arms.arm_regions(prog, ev, sw[0][0], INSTR)
    reg = regs.get("PushDidNotIterate")
    if not reg:
        return 0
    deciders = [c.name for c in ev.calls() if c.bb in reg and c.dest is not None and "p" not in c.dest
                and ev.locals[c.dest["l"]].get("prim") == "bool" and c.name.startswith("minijinja::vm::loop_object::")]
    n = 0
    for dn in sorted(set(deciders)):
        d = prog.fns.get(dn)
        if d is None:
            continue
        n += 1
        # state the decider reads: field names of `self` (through the shared loop object)
        reads = set()
        for bb, i, st in d.all_stmts():
            rv = st.get("rv") or {}
            for pl in [rv.get("place")] + [flow.op_place(o) if hasattr(flow, "op_place") else None for o in []]:
                pass
        from ..facts import op_place
        from .. import query
        for bb, i, st in d.all_stmts():
            rv = st.get("rv") or {}
            pls = [rv.get("place")] if isinstance(rv.get("place"), dict) else []
            pls += [op_place(o) for o in query.rv_operands(rv) if "c" not in o]
            for pl in pls:
                for e in (pl or {}).get("p", []):
                    if isinstance(e, dict) and "n" in e:
                        reads.add(str(e["n"]))
        for c in d.calls():
            for a in c.args:
                pl = op_place(a) if "c" not in a else None
                for o in (flow.origins(d, a) if pl is not None else []):
                    reads |= {x for x in o.proj if not x.startswith("as ") and not x.isdigit()}
        # the stepping function of the same type: writes of those fields under the wrapped iterator's answer
        owner = dn.rsplit("::", 1)[0]
        nxt = prog.fns.get(owner + "::next")
        backed = False
        why = "no `next` on %s" % owner.split("::")[-1]
        if nxt is not None:
            why = "no write of %s in next() depends on what the wrapped iterator returned" % sorted(reads)
            inner = [c for c in nxt.calls() if c.name.endswith("::next") and c.dest is not None]
            for bb, i, st in nxt.all_stmts():
                if st["k"] != "assign":
                    continue
                fld = [str(e["n"]) for e in st["place"].get("p", []) if isinstance(e, dict) and "n" in e]
                if not (set(fld) & reads):
                    continue
                for (sb, taken) in flow.guards(nxt, bb):
                    cd = flow.cond_of(nxt, sb)
                    if cd.kind == "discr" and cd.place is not None and any(
                            o.kind == "call" and any(o.call.bb == ic.bb for ic in inner) for o in flow.origins(nxt, {"cp": cd.place})):
                        backed = True
                    if cd.kind == "call" and cd.call.name.endswith(("::is_some", "::is_none")) and any(
                            o.kind == "call" and any(o.call.bb == ic.bb for ic in inner) for o in flow.origins(nxt, cd.call.args[0])):
                        backed = True
        ctx.ob("C03.L3.did-not-iterate-is-decided-by-what-the-iterator-yielded", dn.split("loop_object::")[-1], backed,
               "%s decides whether the else branch of a loop runs; %s" % (dn.split("::")[-1], why if not backed else "it reads state recorded under the iterator's answer"),
               d.where(0))
    return n


def run(ctx):
    ctx.explain("C03 (partial): the scoping skeleton of the core constructs, decided by the rules of C05 (frames, captures, "
                "jumps, operand balance, restored state) and the closure-related rules of C18 (what macros enclose) run as "
                "clauses of this property.  Rendered output as a function of run-time values (loop bookkeeping, for-else, "
                "argument binding) is NOT decided.")
    from . import c05 as _c05
    from . import c18 as _c18
    _c05.run(ctx.borrowed("C05", "C03.F:"))
    _c18.run(ctx.borrowed("C18", "C03.M:", only=lambda rule, inst: rule.startswith(MACRO_RULES)))
    # "expressions ... produce exactly the output the semantics define" whether or not they are folded while the template is
    # loaded: the transparency rules of the constant folder (C04) as clauses `C03.K:`
    from . import c04 as _c04
    _c04.run(ctx.borrowed("C04", "C03.K:"))
    n_l = check_exact_size_hints(ctx, ctx.prog)
    ctx.floor("C03.L1 size hints with a stored upper bound", n_l, 1)
    n_l3 = check_did_not_iterate(ctx, ctx.prog)
    ctx.floor("C03.L3 deciders of the for-else branch", n_l3, 1)
    n_l2 = check_loop_counters(ctx, ctx.prog)
    ctx.floor("C03.L2 relations between loop attributes", n_l2, 3)
    n_f = sum(1 for o in ctx.obligations if o[0].startswith("C03.F:"))
    n_m = sum(1 for o in ctx.obligations if o[0].startswith("C03.M:"))
    ctx.floor("C03 frame / jump / operand clauses (from C05)", n_f, 100)
    ctx.floor("C03 macro-closure clauses (from C18)", n_m, 10)
    ctx.assume("the clauses are necessary conditions of the scoping sentences of the property; value-level behaviour is not decided")
