"""C14.F5 — an instruction that can fail at run time carries a line of the statement it was compiled for.

The code generator records, with every instruction, `current_line` (or the span on top of the span stack).  A run-time
error is located through that record, so an instruction emitted before the generator's line was set for the current
statement is reported at the line of the *previous* statement (line 0 at the start of a template): inserting lines
above the failing construct then does not move the reported line.

Interprocedural may-analysis over the CodeGenerator methods (MIR call graph, both entry states per function, fixpoint
over recursion):
    state   FRESH  the line was set (set_line / set_line_from_span / push_span) since the current statement began
            STALE  it may still be the line of an earlier statement
    compile_stmt is entered STALE; a caller that was FRESH stays FRESH after a child statement (the line is then its
    own or one inside the child, which lies inside the caller's statement);
    `add(Instruction::V)` with V fallible in STALE state is a violation (add_with_span carries its own span).
Fallible = the interpreter arm of V contains an error exit (a `process_err` call; every Err exit of the loop is
dominated by one, C14.F1).  Children *expressions* do not make the state stale: their lines lie inside the statement.
"""
from .. import arms, flow
from ..facts import op_place

GEN = "minijinja::compiler::codegen::CodeGenerator"
INSTR = "minijinja::compiler::instructions::Instruction"
EI = "minijinja::vm::Executor::eval_impl"
SETTERS = (GEN + "::set_line",)
FRESH, STALE = "fresh", "stale"


def fallible_variants(prog):
    ev = prog.fn(EI)
    disp = arms.enum_switches(prog, ev, INSTR)
    regs = arms.arm_regions(prog, ev, disp[0][0], INSTR)
    out = set()
    for v, reg in regs.items():
        if any(c.name.endswith("vm::process_err") or c.name.endswith("::process_err") for c in arms.calls_in(ev, reg)):
            out.add(v)
    return out, len(regs)


class Lines:
    def __init__(self, prog):
        self.prog = prog
        self.fallible, self.narms = fallible_variants(prog)
        self.gens = {p: f for p, f in prog.fns.items() if p.startswith(GEN + "::") and f.kind != "closure"}
        self.memo = {}
        self.viol = {}
        self.sites = 0
        self.parent = {}
        self._cur = None

    def is_self(self, f, op):
        return any(o.kind == "arg" and o.arg == 1 and not o.proj for o in flow.origins(f, op))

    def variants(self, f, op):
        vs = set()
        for o in flow.origins(f, op):
            if o.kind == "agg" and o.rv.get("adt") == INSTR:
                vs.add(o.rv["variant"])
        return vs

    def analyse(self, path, entry):
        key = (path, entry)
        self._cur = key
        f = self.gens[path]
        st = {0: entry}
        work = [0]
        exit_state = None
        viols = set()
        order = 0
        while work and order < 20000:
            order += 1
            bb = work.pop()
            s = st[bb]
            t = f.term(bb)
            out = s
            # a direct write of the generator's line (`self.current_line = span.start_line`, set_line written out) sets it
            if any(st_["k"] == "assign" and "current_line" in flow._proj_names(st_["place"])
                   and self.is_self(f, {"cp": {"l": st_["place"]["l"]}}) for st_ in f.stmts(bb)):
                s = out = FRESH
            if t["k"] == "call":
                c = next((k for k in f.calls() if k.bb == bb), None)
                if c is not None and c.args and self.is_self(f, c.args[0]):
                    nm = c.name
                    if nm in SETTERS:
                        out = FRESH
                    elif nm == GEN + "::add":
                        vs = self.variants(f, c.args[1])
                        self.sites += 1
                        if s == STALE:
                            for v in vs & self.fallible:
                                viols.add((path, v, str(f.tloc(bb)), self.chain(key)))
                    elif nm == GEN + "::compile_stmt":
                        # a child statement is checked on its own (entered STALE); for the caller the line afterwards
                        # is its own or one inside the child, i.e. still inside the caller's statement
                        self.need((nm, STALE))
                        out = s if s == FRESH else self.memo[(nm, STALE)][0]
                    elif nm in self.gens:
                        self.need((nm, s))
                        out = self.memo.get((nm, s), (s, set()))[0]
                elif c is not None and c.name == GEN + "::compile_stmt":
                    self.need((c.name, STALE))      # a sub-generator compiling statements: own state, own context
            if t["k"] == "return":
                exit_state = STALE if (exit_state == STALE or out == STALE) else out
                continue
            for nx in f.succ[bb]:
                old = st.get(nx)
                new = STALE if (old == STALE or out == STALE) else out
                if old != new:
                    st[nx] = new
                    work.append(nx)
        return (exit_state or entry), viols

    def chain(self, key):
        out = []
        seen = set()
        while key in self.parent and key not in seen:
            seen.add(key)
            out.append("%s[%s]" % (key[0].split("::")[-1], key[1]))
            key = self.parent[key]
        out.append("%s[%s]" % (key[0].split("::")[-1], key[1]))
        return " <- ".join(out)

    def need(self, key):
        if hasattr(self, "wanted"):
            self.wanted.add(key)
        if key not in self.memo:
            self.parent[key] = self._cur
            self.memo[key] = (FRESH if key[1] == FRESH else key[1], set())
            self.pending.add(key)

    def run(self):
        self.pending = set()
        root = (GEN + "::compile_stmt", STALE)
        self.memo[root] = (STALE, set())
        self.pending.add(root)
        for _ in range(60):
            changed = False
            for key in list(self.memo):
                self.pending.discard(key)
                res = self.analyse(*key)
                if res != self.memo[key]:
                    self.memo[key] = res
                    changed = True
            if not changed and not self.pending:
                break
        # contexts discovered under the optimistic summaries of early rounds may be unreachable under the final
        # ones: report only what a last pass from the root reaches
        final = {}
        work = [root]
        self.parent = {}
        while work:
            key = work.pop()
            if key in final:
                continue
            self.wanted = set()
            final[key] = self.analyse(*key)
            for k in self.wanted:
                if k not in final:
                    self.parent.setdefault(k, key)
                    work.append(k)
        self.reached = final
        out = set()
        for key, (x, v) in final.items():
            out |= v
        return out


def check_lines(ctx, prog, tag):
    if not prog.has_fn(GEN + "::compile_stmt"):
        return
    an = Lines(prog)
    ctx.floor("C14.F5 fallible instruction kinds" + tag, len(an.fallible), 25)
    viols = an.run()
    ctx.floor("C14.F5 analysed (function, entry state) contexts" + tag, len(an.reached), 20)
    ctx.floor("C14.F5 add() sites visited" + tag, an.sites, 60)
    seen = set()
    for (path, v, where, chain) in sorted(viols):
        seen.add((path, v))
        ctx.ob("C14.F5.fallible-instruction-has-a-line-of-its-statement", "%s%s|%s" % (tag, path.split("::")[-1], v), False,
               "%s emits Instruction::%s with the plain add() on a path on which the generator's line has not been set "
               "since the current statement began: a run-time error raised by it is reported at the line of the "
               "previous statement (line 0 at the start of the template); reached through %s" % (path.split("::")[-1], v, chain),
               "%s (%s)" % (path, where))
    ctx.ob("C14.F5.fallible-instruction-has-a-line-of-its-statement", tag + "all-codegen-paths", not viols,
           "%d stale emission(s)" % len(viols), prog.fn(GEN + "::compile_stmt").loc)
