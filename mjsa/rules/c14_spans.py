"""C14.F6 — a span expanded to "the last token consumed" covers at least one token.

`TokenStream::expand_span(start)` sets the end of `start` to the end of the *last consumed* token.  `start` is taken
with `current_span()` (the token about to be read).  If no token is consumed in between, the last consumed token lies
*before* `start` and the span is inverted (end < start): the byte range reported for errors on that node is not a
valid slice and the debug rendering underflows.

Rule: either `expand_span` itself refuses to widen when the last consumed token ends before the span starts (every
write of an end field is control-dependent on a comparison of `last_span.end_offset` with `span.start_offset`), or,
per `expand_span(s)` site in the parser whose `s` is a `current_span()` result: every path from that
`current_span()` call to the `expand_span` call consumes a token - it passes `TokenStream::next` or a call to a parser
method that consumes on every successful return (summaries computed bottom-up over the parser's call graph, optimistic
for recursion, then verified)."""
from .. import cfg, flow, errflow

P = "minijinja::compiler::parser::"
NEXT = P + "TokenStream::next"
CUR = P + "TokenStream::current_span"
EXP = P + "TokenStream::expand_span"


def ok_returns(f):
    """blocks that assign Ok(..) to the return place, or all returns when the function does not return a Result"""
    if f.locals[0].get("adt") != "core::result::Result":
        return set(f.returns()), False
    oks = {bb for bb, i, s in f.all_stmts() if s["k"] == "assign" and s["place"] == {"l": 0} and s["rv"]["k"] == "agg"
           and s["rv"].get("variant") == "Ok"}
    # `?`-style passthrough of a callee's whole Result (tail calls): the call writes _0 directly
    tails = {c.bb for c in f.calls() if c.dest == {"l": 0}}
    return oks, bool(tails)


def consuming_summaries(prog):
    fns = {p: f for p, f in prog.fns.items() if p.startswith(P) and f.kind != "closure"}
    must = {p: True for p in fns}          # optimistic
    must[NEXT] = True
    for _ in range(30):
        changed = False
        for p, f in fns.items():
            if p in (NEXT,) or "TokenStream" in p:
                continue
            through = {c.bb for c in f.calls() if c.name == NEXT or (c.name in must and must[c.name] and c.name in fns)}
            oks, has_tail = ok_returns(f)
            ends = set(oks)
            if has_tail:
                # a tail call that is itself consuming is in `through`; a non-consuming one must count as an end
                ends |= {c.bb for c in f.calls() if c.dest == {"l": 0} and c.bb not in through}
            val = bool(ends) and cfg.paths_must_pass(f, 0, through, ends) if ends else True
            if val != must[p]:
                must[p] = val
                changed = True
        if not changed:
            break
    for p in list(must):
        if "TokenStream" in p and p != NEXT:
            must[p] = False
    return fns, must


def expand_is_guarded(prog):
    """`expand_span` widens the span only under a comparison of the last token's end with the span's start"""
    f = prog.fn(EXP)
    writes = [bb for bb, i, s in f.all_stmts() if s["k"] == "assign" and any(
        isinstance(e, dict) and e.get("n") in ("end_offset", "end_line", "end_col") for e in s["place"].get("p", []))]
    # the widened span may also be built as a new value: `Span { end_offset: last.end_offset, .. , ..span }`
    SPAN = "minijinja::compiler::tokens::Span"
    for bb, i, st in f.all_stmts():
        rv = st.get("rv", {})
        if st["k"] == "assign" and rv.get("k") == "agg" and rv.get("adt") == SPAN:
            for fname, o in zip(rv.get("fields", []), rv["ops"]):
                if fname in ("end_offset", "end_line", "end_col") and any("last_span" in x.proj for x in flow.origins(f, o)):
                    writes.append(bb)
    if not writes:
        return False
    for bb in writes:
        ok = False
        for (sb, taken) in flow.guards(f, bb):
            cd = flow.cond_of(f, sb)
            if cd.kind == "bin" and cd.rv["op"] in ("Ge", "Gt", "Le", "Lt") and cd.rv.get("ty") in ("u32", "usize", "u16"):
                names = set()
                for side in ("a", "b"):
                    for o in flow.origins(f, cd.rv[side]):
                        names |= set(o.proj)
                if "end_offset" in names and "start_offset" in names:
                    ok = True
        if not ok:
            return False
    return True


def check_span_expansion(ctx, prog, tag):
    if expand_is_guarded(prog):
        ctx.ob("C14.F6.expanded-span-covers-a-consumed-token", tag + "expand_span|guarded", True,
               "expand_span only widens a span when the last consumed token ends at or after the span's start", prog.fn(EXP).loc)
        ctx.count("C14.F6 expand_span refuses to invert: per-site consumption not required")
        return
    fns, must = consuming_summaries(prog)
    n = 0
    for p, f in sorted(fns.items()):
        for c in f.calls_to(EXP):
            starts = [o.call for o in flow.origins(f, c.args[1]) if o.kind == "call" and o.call.name == CUR]
            if not starts:
                continue
            n += 1
            through = {k.bb for k in f.calls() if k.name == NEXT or (must.get(k.name) and k.name in fns)}
            bad = [s for s in starts if not cfg.paths_must_pass(f, s.bb, through - {s.bb}, [c.bb])]
            ctx.ob("C14.F6.expanded-span-covers-a-consumed-token", "%s%s|%s" % (tag, p.split("::")[-1], len(bad) and "empty" or "ok"),
                   not bad,
                   "a path from `current_span()` (%s) to this `expand_span` consumes no token: the span ends at the token "
                   "*before* its start (end < start), so the reported byte range is not a valid slice and the debug "
                   "rendering of the error underflows" % ", ".join(str(f.tloc(s.bb)) for s in bad), f.where(c.bb))
    ctx.floor("C14.F6 expand_span sites fed by current_span" + tag, n, 15)
    ctx.count("parser methods that consume a token on every successful path", sum(1 for p in fns if must.get(p)))
