"""C15 — an environment's behaviour depends on its contents, not on its history.

Structural clauses:
 U1 failed insertion changes nothing: in every fallible `&mut self` mutator of LoaderStore / Environment no mutation
    of a field of `self` can be followed, on any path, by a call whose Err is returned.
 U2 two-tier store consistency: a path that inserts a name into one of borrowed_templates / owned_templates removes
    it from the other (or is guarded by its absence there); `remove` and `clear` act on both tiers.
 U3 process-global mutable state is exactly the reviewed table (statics / thread-locals with interior mutability).
 U4 pool hygiene: the code-generator buffer pools are touched only by their take/recycle helpers, a taken buffer is
    cleared on every path before it is returned; the INTERNAL_SERIALIZATION flag is set only together with the
    construction of its resetting guard.
 U5 copy-on-write registries: every mutable borrow of Environment.{filters,tests,globals} goes to Arc::make_mut.
 U6 (thorough) type-level witnesses: Environment/Template/Value are Send + Sync; mutating an environment while a
    template borrowed from it is alive does not compile.
"""
import json
import os
import subprocess
import shutil
import tempfile

from .. import cfg, flow, errflow, query
from ..facts import op_place, norm_path, VERIF, CheckerBroken

STORE = "minijinja::loader::LoaderStore"
ENV = "minijinja::environment::Environment"
TIERS = ("borrowed_templates", "owned_templates")
MUTATORS = ("::insert", "::remove", "::replace", "::clear", "::push", "::pop", "::retain", "::entry",
            "::get_or_try_insert", "::get_or_insert", "::extend", "::append", "::truncate", "::drain", "::take")

# what the map insertion APIs used by the store do to an existing entry (std / memo-map documentation)
MAP_API = {
    "alloc::collections::btree::map::BTreeMap::insert": "overwrite",
    "std::collections::hash::map::HashMap::insert": "overwrite",
    "memo_map::MemoMap::replace": "overwrite",
    "memo_map::MemoMap::insert": "keep-first",
    "memo_map::MemoMap::get_or_insert": "keep-first",
    "memo_map::MemoMap::get_or_try_insert": "keep-first",
    "memo_map::MemoMap::get_or_insert_owned": "keep-first",
}

INTERIOR_MUTABLE = {
    "minijinja::loader::LoaderStore.owned_templates": "the loader-backed template tier: U2 / U8 decide what may be recorded in it (keep-first fill, cleared with the cache)",
    "minijinja::value::InternalSerializationGuard.flag": "a borrow of the thread-local serialization flag held by its resetting guard (U4)",
    "minijinja::value::argtypes::Kwargs.used": "per call: a `Kwargs` is built by the argument conversion of one call and dropped with it; the shared `KwargsValues` behind the Arc has no such field",
    "minijinja::value::namespace_object::Namespace.data": "the namespace object is mutable by design (`{% set ns.x = .. %}`); it is created by a render (`namespace()`) and lives in that render's values",
    "minijinja::vm::loop_object::Loop.last_changed_value": "the loop object of one loop execution (`loop.changed`)",
    "minijinja::vm::loop_object::Loop.iter": "the iterator of one loop execution",
    "minijinja::vm::loop_object::LoopState.idx": "the position of one loop execution",
    "minijinja::vm::loop_object::Loop.idx": "the position of one loop execution",
    "minijinja_contrib::globals::cycler::Cycler.pos": "a cycler is created by a render (`cycler(..)`) and advances by design",
    "minijinja_contrib::globals::joiner::Joiner.used": "a joiner is created by a render (`joiner(..)`) and flips by design",
}

GLOBAL_STATE = {
    "minijinja::compiler::codegen::PENDING_BLOCK_POOL": "thread-local pool of emptied Vec buffers (U4: cleared on take)",
    "minijinja::compiler::codegen::SPAN_STACK_POOL": "thread-local pool of emptied Vec buffers (U4: cleared on take)",
    "minijinja::value::INTERNAL_SERIALIZATION": "thread-local flag, set only under a resetting guard (U4)",
    "minijinja::value::LAST_VALUE_HANDLE": "thread-local handle counter; handles are only meaningful within one serialize call",
    "minijinja::value::VALUE_HANDLES": "thread-local handle registry; entries are removed when resolved",
    "minijinja::vm::state::STATE_ID": "atomic id generator; ids are only compared for equality",
    "minijinja::defaults::get_builtin_filters::FILTERS": "OnceLock cache of the immutable builtin table",
    "minijinja::defaults::get_builtin_tests::TESTS": "OnceLock cache of the immutable builtin table",
    "minijinja::defaults::get_globals::GLOBALS": "OnceLock cache of the immutable builtin table",
    "minijinja::environment::default_auto_escape_callback::DEFAULT_AUTO_ESCAPE": "OnceLock cache of a stateless callback",
    "minijinja::environment::no_auto_escape_callback::NO_AUTO_ESCAPE": "OnceLock cache of a stateless callback",
    "minijinja::environment::default_formatter::FORMATTER": "OnceLock cache of a stateless callback",
    "minijinja::utils::small_u64_format::CACHE": "OnceLock cache of constant strings",
    "minijinja::syntax::imp::default_delims::DEFAULT_DELIMS_ARC": "OnceLock cache of the default delimiters",
    "minijinja::output::NullWriter::get_mut::NULL_WRITER": "static mut zero-sized writer (no state)",
    "minijinja::macros::__context::thread_local_env::ENV": "test/doc helper used by the context! documentation only",
    "minijinja_contrib::filters::HTML_ENTITIES": "constant table",
}


def self_field_mut_borrows(f, field=None):
    """locals holding `&mut (*self).<field>` (self = _1), mapped to the field name"""
    out = {}
    for bb, i, s in f.all_stmts():
        if s["k"] != "assign" or "p" in s["place"]:
            continue
        rv = s["rv"]
        if rv["k"] == "ref" and rv.get("mut") and rv["place"]["l"] == 1:
            names = flow._proj_names(rv["place"])
            if names and (field is None or names[0] == field):
                out[s["place"]["l"]] = (names[0], bb)
    # reborrows
    changed = True
    while changed:
        changed = False
        for bb, i, s in f.all_stmts():
            if s["k"] != "assign" or "p" in s["place"]:
                continue
            rv = s["rv"]
            src = None
            if rv["k"] == "ref" and rv.get("mut") and rv["place"].get("p") == ["*"]:
                src = rv["place"]["l"]
            elif rv["k"] == "use" and op_place(rv["op"]) is not None and "p" not in op_place(rv["op"]):
                src = op_place(rv["op"])["l"]
            if src in out and s["place"]["l"] not in out:
                out[s["place"]["l"]] = out[src]
                changed = True
    return out


def mutation_events(f):
    """calls that receive `&mut self.<field>` as first argument and are named like container mutators; plus direct
    stores into fields of self"""
    ev = []
    borrows = self_field_mut_borrows(f)
    for c in f.calls():
        if not c.args:
            continue
        l = None
        p = op_place(c.args[0])
        if p is not None and "p" not in p:
            l = p["l"]
        if l in borrows and any(c.name.endswith(m) or (m + "<") in c.name or c.name.split("::")[-1] == m[2:] for m in MUTATORS):
            ev.append((c.bb, borrows[l][0], c.name))
    for d in flow.stores(f):
        if d.place["l"] == 1:
            names = flow._proj_names(d.place)
            if names:
                ev.append((d.bb, names[0], "store"))
    return ev


def fallible_events(f):
    out = []
    for c in f.calls():
        if c.dest is None or "p" in c.dest:
            continue
        if f.locals[c.dest["l"]].get("adt") != "core::result::Result":
            continue
        if c.name.endswith("Try>::branch") or c.name.endswith("from_residual") or c.name.startswith("core::result::Result::"):
            continue
        ds = errflow.disposition(f, c)
        if any(d[0] in ("returned", "propagated") for d in ds):
            out.append(c)
    return out


INTERIOR = ("memo_map::MemoMap", "std::sync::poison::mutex::Mutex", "std::sync::Mutex", "std::sync::poison::rwlock::RwLock",
            "core::cell::RefCell", "core::cell::Cell", "core::cell::UnsafeCell", "std::sync::once_lock::OnceLock",
            "core::sync::atomic::", "core::cell::OnceCell")


def check_shared_state(ctx, prog, root, prefix):
    """U7: clones do not share mutable state.  What two clones of `root` share behind an `Arc` must be immutable
    through `&self`; a container with interior mutability behind an Arc (e.g. the loader cache, a MemoMap filled
    through `&self`) would let a template loaded by one clone appear in the other.  Returns the number of fields."""
    import re as _re
    n7 = 0
    seen_adts = set()
    work = [root]
    while work:
        a = work.pop()
        if a in seen_adts:
            continue
        seen_adts.add(a)
        ad = prog.adts.get(a)
        if ad is None or not a.startswith(prefix):
            continue
        for v in ad["variants"]:
            for fl in v["fields"]:
                ts = fl["ty"]["s"]
                n7 += 1
                shared_mut = None
                for m_ in _re.finditer(r"alloc::sync::Arc<([^<>(]+)", ts):
                    inner = m_.group(1)
                    if any(inner.startswith(x) for x in INTERIOR):
                        shared_mut = inner
                ctx.ob("C15.U7.clones-share-no-interior-mutable-state", "%s.%s" % (a.split("::")[-1], fl["name"]), shared_mut is None,
                       "field `%s: %s` puts %s behind an Arc: cloned environments would share a container that is "
                       "mutated through `&self` (a template loaded lazily by one clone becomes visible in the other)" % (
                           fl["name"], ts[:120], shared_mut), ad.get("loc") and "%s:%s" % (ad["loc"]["f"], ad["loc"]["l"]) or "")
                sub = fl["ty"].get("adt")
                if sub and sub.startswith(prefix):
                    work.append(sub)
    return n7


def check_registrations_take_effect(ctx, prog):
    """U9: an explicit registration always takes effect.  Every `&mut self` method of Environment named add_* / set_*
    writes (a map insert / push, a field store, or a call of another method of the receiver) on *every* path to a
    return.  An early return that keeps what was there ("the value is already equal", decided with the engine's loose
    `==`) makes the environment depend on what it held before: `add_global("ratio", 1.0)` after `add_global("ratio", 1)`
    keeps rendering `1`."""
    E = "minijinja::environment::Environment::"
    n = 0
    for k, f in sorted(prog.fns.items()):
        if not k.startswith(E) or f.kind == "closure":
            continue
        nm = k[len(E):]
        if not (nm.startswith("add_") or nm.startswith("set_")) or f.argc < 2:
            continue
        if not f.locals[1].get("s", "").startswith("&mut "):
            continue
        writes = set()
        for c in f.calls():
            selfy = any(o.kind == "arg" and o.arg == 1 for a in c.args[:1] if "c" not in a for o in flow.origins(f, a))
            last = c.name.split("::")[-1]
            if last in ("insert", "replace", "push", "extend") or (selfy and prog.has_fn(c.name) and c.name != k):
                writes.add(c.bb)
        for d in flow.stores(f):
            if any(o.kind == "arg" and o.arg == 1 for o in flow.origins(f, d.place["l"])):
                writes.add(d.bb)
        for l, ds in flow.defs(f).items():
            for d in ds:
                if d.kind in ("part", "partcall") and l == 1:
                    writes.add(d.bb)
        n += 1
        # error returns (a template that does not compile) are not registrations
        rets = set(f.returns())
        ok_rets = set()
        for r in rets:
            ok_rets.add(r)
        is_result = f.locals[0].get("adt") == "core::result::Result"
        if is_result:
            errs = {bb for bb, i, s_ in f.all_stmts() if s_["k"] == "assign" and s_["place"] == {"l": 0} and
                    s_["rv"].get("k") == "agg" and s_["rv"].get("variant") == "Err"}
            # paths that assign Err(..) to the return place are exempt: cut them by avoiding those blocks
            reach = cfg.reach_from(f, 0, avoid=writes | errs)
            ok = not (reach & rets)
        else:
            ok = cfg.paths_must_pass(f, 0, writes, rets)
        ctx.ob("C15.U9.registration-always-takes-effect", nm, bool(writes) and ok,
               "Environment::%s can return without storing what it was given (a path from the entry to a return passes no "
               "insert / store): what the environment then holds depends on what was registered before" % nm, f.loc)
    ctx.floor("C15.U9 add_* / set_* methods of Environment", n, 12)


def check_buffer_pools(ctx, prog, prefix="C15.U4"):
    """the code generator's pooled scratch vectors (pending blocks, span stack) are thread-local and outlive a
    compilation: only the take / recycle helpers touch a pool, and a taken buffer is cleared on every path before it is
    handed out - otherwise spans (byte ranges of *another* template) or pending blocks leak into the next compilation"""
    pools = {"minijinja::compiler::codegen::PENDING_BLOCK_POOL": ("take_pending_block_buffer", "recycle_pending_block_buffer"),
             "minijinja::compiler::codegen::SPAN_STACK_POOL": ("take_span_stack_buffer", "recycle_span_stack_buffer")}
    for pool, (take, rec) in pools.items():
        users = set()
        for f in prog.fns.values():
            if any(n == pool or n.startswith(pool + "::") for n in query.named_consts(f)):
                users.add(f.root or f.path)
        users = {u for u in users if not u.startswith(pool)}
        allowed = {"minijinja::compiler::codegen::" + take, "minijinja::compiler::codegen::" + rec}
        ctx.ob(prefix + ".pool-touched-only-by-helpers", pool, bool(users) and users <= allowed,
               "pool accessed from %s" % sorted(users - allowed), "")
        tf = prog.fn("minijinja::compiler::codegen::" + take)
        clears = [c for c in tf.calls() if c.name == "alloc::vec::Vec::clear"]
        # every value the helper returns is empty: a vector it has just built (`Vec::new` / `with_capacity`), or one that
        # `clear()` was called on - before it was moved into the return place or afterwards - on every path
        fresh = lambda nm: nm.startswith("alloc::vec::Vec") and nm.split("::")[-1] in ("new", "with_capacity", "default")

        def cleared_locals(c):
            tgt = {op_place(c.args[0])["l"]} if op_place(c.args[0]) and "p" not in op_place(c.args[0]) else set()
            for d in flow.whole_defs(tf, op_place(c.args[0])["l"]):
                if d.kind == "stmt" and d.rv["k"] == "ref":
                    tgt.add(d.rv["place"]["l"])
            return tgt
        defs0 = []       # (block, source local or None, is_fresh)
        for bb, i, st in tf.all_stmts():
            if st["k"] == "assign" and st["place"] == {"l": 0}:
                src = op_place(st["rv"]["op"]) if st["rv"]["k"] == "use" else None
                fr = bool(src) and all(o.kind == "call" and fresh(o.call.name) for o in flow.origins(tf, st["rv"]["op"])) if src else False
                defs0.append((bb, src["l"] if src else None, fr))
        for c in tf.calls():
            if c.dest == {"l": 0}:
                defs0.append((c.target if c.target is not None else c.bb, None, fresh(c.name)))
        ok = bool(defs0)
        same = bool(defs0)
        for bb, src, fr in defs0:
            if fr:
                continue
            before = [c.bb for c in clears if src is not None and src in cleared_locals(c)]
            after = [c.bb for c in clears if 0 in cleared_locals(c)]
            good = (before and cfg.paths_must_pass(tf, 0, before, [bb])) or (after and cfg.paths_must_pass(tf, bb, after, tf.returns()))
            ok = ok and bool(good)
        ctx.ob(prefix + ".taken-buffer-is-cleared", tf.path, ok and same,
               "a pooled buffer can be handed out without clear(): instructions state from a previous compilation "
               "leaks into the next", tf.loc)


def check_registry_keys(ctx, prog):
    """U12 (round 11, seed C15-11): a registry is addressed by the name the host gives.  What `add_x(name, ..)` stores under and
    what `remove_x(name)` removes must be the same function of the name: if one of them passes the name through a function
    of the crate (a normalisation) and the other does not, an entry can no longer be removed under the spelling it was
    added with, and two spellings collide - the environment then depends on its history."""
    ENV = "minijinja::environment::Environment"
    CONV = ("::into", "::from", "::to_string", "::to_owned", "::borrow", "::as_ref", "::deref", "::clone", "::as_str", "::to_string_lossy")

    def chain(g, op, depth=0):
        out = set()
        if depth > 6 or "c" in op:
            return out
        for o in flow.origins(g, op):
            if o.kind == "call":
                nm = o.call.name
                if nm.startswith(("minijinja::", "<minijinja::")) and not nm.endswith(CONV):
                    out.add(nm.rsplit("::", 1)[-1])
                if o.call.args:
                    out |= chain(g, o.call.args[0], depth + 1)
        return out
    per = {}
    for k, f in prog.fns.items():
        if f.crate != "minijinja" or f.kind == "closure" or not k.startswith(ENV + "::"):
            continue
        for c in f.calls():
            last = c.name.rsplit("::", 1)[-1]
            if last not in ("insert", "remove") or "Map" not in c.name or len(c.args) < 2:
                continue
            # which registry: the field of self the receiver comes from (through Arc::make_mut)
            reg = None
            for o in flow.origins(f, c.args[0], through_calls=lambda q: 0 if q.name.endswith(("::make_mut", "::deref_mut", "::deref")) else None):
                if o.kind == "arg" and o.arg == 1 and o.proj:
                    reg = [x for x in o.proj if not x.startswith("as ")][0]
            if reg is None:
                continue
            per.setdefault(reg, []).append((last, f, c, frozenset(chain(f, c.args[1]))))
    n = 0
    for reg, sites in sorted(per.items()):
        kinds = {k for k, _, _, _ in sites}
        if kinds != {"insert", "remove"}:
            continue
        n += 1
        chains = {ch for _, _, _, ch in sites}
        ok = len(chains) == 1
        f0, c0 = sites[0][1], sites[0][2]
        ctx.ob("C15.U12.add-and-remove-address-the-same-key", "Environment.%s" % reg, ok,
               "the key of %s goes through %s" % (reg, {"%s in %s" % (k, f.path.split("::")[-1]): sorted(ch) for k, f, _, ch in sites}),
               f0.where(c0.bb))
    return n


def run(ctx):
    ctx.explain("C15: ordering rule on fallible mutators (no mutation of self may precede a propagated failure), "
                "pairing rule for the two template tiers, reviewed-table rule for process-global mutable state, "
                "hygiene rules for the two buffer pools and the serialization flag, who-may-mutate rule for the "
                "copy-on-write registries, and (thorough) compile-time witnesses for Send/Sync and borrow "
                "exclusivity.  Decides the code-shape conditions under which history cannot leak into later renders; "
                "equality of renders across histories and interleavings of concurrent renders are not executed.")
    ctx.assume("render state is per-render (State) and an Environment is immutable while borrowed: enforced by the "
               "Rust type system, witnessed in the thorough tier")
    prog = ctx.prog
    # ---- U1
    n1 = 0
    for f in prog.fns.values():
        if f.crate != "minijinja" or f.kind == "closure" or not f.locals or f.argc < 1:
            continue
        t1 = f.locals[1]
        if t1.get("adt") not in (STORE, ENV) or not t1["s"].startswith("&mut"):
            continue
        if f.locals[0].get("adt") != "core::result::Result":
            continue
        n1 += 1
        muts = mutation_events(f)
        falls = fallible_events(f)
        bad = []
        for (mbb, field, what) in muts:
            after = cfg.reach_from_succs(f, mbb)
            for c in falls:
                if c.bb in after or c.bb == mbb and False:
                    bad.append((field, what.split("::")[-1], c.name.split("::")[-1], c.bb))
        ctx.ob("C15.U1.no-mutation-before-fallible-step", f.path, not bad,
               "self.%s is mutated (%s) and a later step (%s) can still fail and return Err: a failed call leaves the "
               "environment changed" % (bad[0][0], bad[0][1], bad[0][2]) if bad else
               "%d mutations, %d fallible steps" % (len(muts), len(falls)),
               f.where(bad[0][3]) if bad else f.loc)
        ctx.sample({"rule": "C15.U1", "fn": f.path, "mutations": len(muts), "fallible": len(falls)})
    ctx.floor("C15.U1 fallible &mut self mutators of LoaderStore/Environment", n1, 4)

    # ---- U2
    n2 = 0
    for f in prog.fns.values():
        if f.crate != "minijinja" or not (f.path.startswith("minijinja::loader::LoaderStore::")):
            continue
        ins = []
        rem = []
        for c in f.calls():
            if not c.args:
                continue
            tier = None
            for o in flow.origins(f, c.args[0], through_calls=lambda k: 0 if k.name.endswith(
                    ("Arc::make_mut", "::deref", "::deref_mut", "::as_ref", "::as_mut", "::borrow", "::borrow_mut")) else None):
                for t in TIERS:
                    if t in o.proj:
                        tier = t
            if f.kind == "closure" and tier is None:
                continue
            if tier is None:
                continue
            last = c.name.split("::")[-1]
            if last in ("insert", "replace", "get_or_try_insert", "get_or_insert"):
                ins.append((c, tier))
            elif last in ("remove", "clear"):
                rem.append((c, tier, last))
        # replacing a whole tier with a fresh value clears it as well
        class _A:
            def __init__(self, bb):
                self.bb = bb
        for d in flow.stores(f):
            names = flow._proj_names(d.place)
            if names and names[-1] in TIERS and d.place.get("l") == 1:
                rem.append((_A(d.bb), names[-1], "clear"))
        for c, tier in ins:
            n2 += 1
            other = TIERS[1 - TIERS.index(tier)]
            # explicit additions (`&mut self`) must install the new template whatever was there before; the lazy
            # loader fill (`&self`) must keep what was loaded first.  Which map API does which is library knowledge,
            # kept as a reviewed table; an API not in the table is reported.
            explicit = f.locals[1].get("s", "").startswith("&mut ")
            sem = MAP_API.get(c.name)
            if explicit:
                ctx.ob("C15.U2.explicit-add-overwrites", "%s|%s" % (f.path, tier), sem == "overwrite",
                       "%s %s: a template added explicitly under a name that is already present in %s would be "
                       "dropped and the old source kept, so rendering depends on history" % (
                           c.name, "keeps an existing entry" if sem == "keep-first" else "is not a reviewed map API", tier),
                       f.where(c.bb))
            else:
                ctx.ob("C15.U2.loader-fill-keeps-first", "%s|%s" % (f.path, tier), sem == "keep-first",
                       "%s %s: a loader-backed template must keep the source it had when first requested" % (
                           c.name, "overwrites" if sem == "overwrite" else "is not a reviewed map API"), f.where(c.bb))
            ok = False
            for r, rt, _ in rem:
                if rt == other and (cfg.dominates(f, r.bb, c.bb) or cfg.paths_must_pass(f, c.bb, [r.bb], f.returns())):
                    ok = True
            if not ok:
                # guarded by absence in the other tier: `other.get(name)` is None on this path
                for g in flow.guard_facts(prog, f, c.bb):
                    if g[0] == "stdvariant" and g[1] == "core::option::Option" and "1" not in g[2]:
                        if any(o.kind == "call" and o.call.name.endswith("::get") and any(
                                other in oo.proj for oo in flow.origins(f, o.call.args[0]))
                               for o in flow.origins(f, {"cp": g[3]})):
                            ok = True
            ctx.ob("C15.U2.insert-evicts-other-tier", "%s|%s" % (f.path, tier), ok,
                   "a name inserted into %s may stay in %s: which template renders depends on history" % (tier, other),
                   f.where(c.bb))
        if f.path in (STORE + "::remove", STORE + "::clear"):
            tiers = {rt for _, rt, _ in rem}
            every = all(cfg.paths_must_pass(f, 0, [r.bb for r, rt, _ in rem if rt == t], f.returns()) for t in TIERS)
            ctx.ob("C15.U2.%s-acts-on-both-tiers" % f.path.split("::")[-1], f.path, tiers == set(TIERS) and every,
                   "tiers touched: %s; on every path: %s" % (sorted(tiers), every), f.loc)
    ctx.floor("C15.U2 tier insertions", n2, 3)

    # ---- U8: a lookup remembers nothing but the template it loaded.  `LoaderStore::get` takes `&self`; the one thing
    # it may record through interior mutability is the keep-first fill of a template tier with what the loader
    # returned.  Anything else remembered there (a negative cache of missing names, counters, "last loader answer")
    # makes later renders depend on which lookups happened before, e.g. across set_loader.
    INTERIOR_WRITES = ("insert", "replace", "get_or_insert", "get_or_try_insert", "get_or_insert_owned", "remove", "clear",
                       "set", "borrow_mut", "lock", "store", "fetch_add", "swap", "push")
    n8 = 0
    for f in prog.fns.values():
        if f.crate != "minijinja":
            continue
        root = prog.fns.get(f.root) if f.kind == "closure" else f
        if root is None or not root.path.startswith(STORE + "::") or not root.locals[1].get("s", "").startswith("&minijinja::loader::LoaderStore"):
            continue
        for c in f.calls():
            last = c.name.split("::")[-1]
            if last not in INTERIOR_WRITES or not c.args:
                continue
            fields = set()
            for o in flow.origins(f, c.args[0], through_calls=lambda k: 0 if k.name.endswith(("::deref", "::deref_mut", "::as_ref")) else None):
                if o.kind == "arg" and o.proj:
                    fields.add(o.proj[0] if f.kind != "closure" else ".".join(o.proj))
            if f.kind == "closure":
                # captured `&self`: resolve the field through the capture
                caps = flow.closure_captures(prog, f)
                for o in flow.origins(f, c.args[0]):
                    if o.kind == "arg" and o.arg == 1 and o.proj:
                        try:
                            idx_ = int(o.proj[0])
                        except ValueError:
                            continue
                        if idx_ < len(caps):
                            for oo in caps[idx_]:
                                fields |= {x for x in oo.proj}
                                fields |= set(o.proj[1:])
            fields = {x.split(".")[-1] for x in fields}
            fields = {x for x in fields if not x.isdigit() and x != "*"}
            named = {x for x in fields if x in ("borrowed_templates", "owned_templates", "loader", "template_config") or x.endswith("_templates")}
            if not named:
                continue
            n8 += 1
            ok8 = named <= set(TIERS) and MAP_API.get(c.name) == "keep-first"
            ctx.ob("C15.U8.lookup-remembers-only-loaded-templates", "%s|%s.%s" % (root.path, "+".join(sorted(named)), last), ok8,
                   "a `&self` lookup of the store records something in `%s` through %s: only the keep-first fill of a "
                   "template tier may be remembered; a remembered miss (or any other lookup by-product) makes what a "
                   "template resolves to depend on earlier lookups" % ("+".join(sorted(named)), c.name), f.where(c.bb))
    ctx.floor("C15.U8 interior writes in `&self` methods of the store", n8, 1)

    # ---- U7
    n7 = check_shared_state(ctx, prog, ENV, "minijinja::")
    ctx.floor("C15.U7 fields of Environment and the stores it owns", n7, 15)
    sub7 = ctx.fresh()
    check_shared_state(sub7, ctx.controls, "mjsa_controls::c15::SharedCache", "mjsa_controls::")
    ctx.control("C15.U7", any(not o[2] for o in sub7.obligations))

    # ---- U3
    seen = set()
    n3 = 0
    for cname in ctx.configs():
        p2 = ctx.program(cname)
        for s in p2.statics:
            path = norm_path(s["path"]).split("::{constant#")[0]
            mutable = s.get("mut") or not s.get("freeze", True) or s.get("thread_local")
            if not mutable or path in seen:
                continue
            seen.add(path)
            n3 += 1
            ctx.ob("C15.U3.global-mutable-state-is-reviewed", path, path in GLOBAL_STATE,
                   GLOBAL_STATE.get(path, "a new static / thread-local with interior mutability: state that survives "
                                          "a render and can make later renders depend on earlier ones (type %s)"
                                    % s["ty"].get("s")), "%s:%s" % (s["loc"].get("f"), s["loc"].get("l")))
    ctx.floor("C15.U3 mutable statics / thread-locals", n3, 12)

    # ---- U11 (after seed C15-9): interior mutability is where history hides.  Every field of an engine type whose type
    # has interior mutability (Mutex, RwLock, RefCell, Cell, atomics, Once*, MemoMap, UnsafeCell) is in a reviewed table
    # with the reason why what it holds cannot outlive the operation that filled it - or is decided by another rule.
    # (Seed C15-9 moved the per-call "used keyword arguments" set of `Kwargs` into the shared `KwargsValues` object, which
    # the code generator embeds as a constant of the compiled template: later renders started with earlier renders' marks.)
    import re as _re
    IM = _re.compile(r"(Mutex<|RwLock<|RefCell<|\bCell<|Atomic[A-Z]|OnceCell<|OnceLock<|MemoMap<|UnsafeCell<|LazyLock<|LazyCell<)")
    n11 = 0
    seen11 = set()
    for cname in ctx.configs():
        p11 = ctx.program(cname)
        for path, a in sorted(p11.adts.items()):
            if not path.startswith(("minijinja::", "minijinja_contrib::")):
                continue
            for v in a["variants"]:
                for fl in v["fields"]:
                    if not IM.search(fl["ty"].get("s", "")):
                        continue
                    key = "%s.%s" % (path, fl["name"])
                    if key in seen11:
                        continue
                    seen11.add(key)
                    n11 += 1
                    ctx.ob("C15.U11.interior-mutability-is-reviewed", key, key in INTERIOR_MUTABLE,
                           INTERIOR_MUTABLE.get(key) or
                           "%s is a new field with interior mutability (%s): state that can be changed through a shared reference. If "
                           "the value is shared between calls, renders or clones of the environment (a constant of a compiled "
                           "template, a registry entry), what one render leaves in it changes the next"
                           % (key, fl["ty"].get("s", "")[:80]), path)
    ctx.floor("C15.U11 fields with interior mutability", n11, 5)

    # ---- U10 (after seed C15-7): a state's id tells the objects of one render from those of every other render -
    # a macro refuses to run against a state that is not its own by comparing ids.  That works "from any number of
    # threads at once" only while ids are unique in the process: every value stored in `State.id` is the result of an
    # atomic read-modify-write (`fetch_add`) on a static that is not thread-local.
    n10 = 0
    for f10, bb10, i10, rv10 in query.aggregates_of(prog, "minijinja::vm::state::State"):
        if "id" not in (rv10.get("fields") or []):
            continue
        for o in flow.origins(f10, rv10["ops"][rv10["fields"].index("id")]):
            n10 += 1
            ok10 = False
            why10 = "the id is not the result of an atomic fetch_add (%s)" % (o.call.name if o.kind == "call" else o.kind)
            if o.kind == "call" and "sync::atomic::Atomic" in o.call.name and o.call.name.endswith("::fetch_add") and o.call.args:
                recv = flow.origins(f10, o.call.args[0])
                ok10 = bool(recv) and all(r.kind == "const" for r in recv)
                why10 = "the counter is not a process-wide static"
                # the only atomics of the engine that are statics: none of them may be thread-local
                for s_ in prog.statics:
                    if "sync::atomic::Atomic" in (s_["ty"].get("s") or "") and s_.get("thread_local") and s_.get("crate") == "minijinja":
                        ok10 = False
                        why10 = "the atomic counter %s is thread-local" % norm_path(s_["path"])
            ctx.ob("C15.U10.state-ids-are-unique-in-the-process", "%s|id" % f10.path.split("::")[-1], ok10,
                   "State.id: %s - two renders on different threads can get the same id, and a macro value that outlived "
                   "its render is then accepted by (and run against) a foreign state: the same template and context "
                   "give an error or a result depending on how many renders a thread did before" % why10, f10.where(bb10))
    if any(f_.path == "minijinja::vm::state::State::new" for f_ in prog.fns.values()) and prog.adt("minijinja::vm::state::State") and \
            any(fl.get("name") == "id" for v_ in prog.adt("minijinja::vm::state::State").get("variants", []) for fl in v_.get("fields", [])):
        ctx.floor("C15.U10 values stored as a state's id", n10, 1)
    # ---- U12
    n12 = check_registry_keys(ctx, ctx.prog)
    ctx.floor("C15.U12 registries with add and remove", n12, 2)
    # ---- U9
    check_registrations_take_effect(ctx, prog)
    # ---- U4
    check_buffer_pools(ctx, prog)
    # INTERNAL_SERIALIZATION
    sets = []
    for f in prog.fns.values():
        if f.crate != "minijinja":
            continue
        for c in f.calls():
            if c.name in ("core::cell::Cell::replace", "core::cell::Cell::set") and f.locals[
                    op_place(c.args[0])["l"]]["s"].endswith("core::cell::Cell<bool>") and len(c.args) > 1:
                v = c.args[1].get("c", {}).get("int")
                sets.append((f, c, v))
    flag_sets = [(f, c) for f, c, v in sets if v == "1"]
    for f, c in flag_sets:
        guards_built = [bb for bb, i, s in f.all_stmts() if s.get("rv", {}).get("k") == "agg" and s["rv"].get(
            "adt") == "minijinja::value::InternalSerializationGuard"]
        ok = any(cfg.dominates(f, c.bb, g) for g in guards_built) and all(
            cfg.paths_must_pass(f, c.bb, guards_built, f.returns()) for _ in [0])
        ctx.ob("C15.U4.serialization-flag-set-under-guard", f.path, ok,
               "the thread-local flag is set without constructing the guard that resets it", f.where(c.bb))
    if prog.has_fn("minijinja::value::serializing_for_value"):
        ctx.floor("C15.U4 sites setting the serialization flag", len(flag_sets), 1)
        dg = [f for f in prog.fns.values() if f.path.endswith("InternalSerializationGuard<'_> as core::ops::drop::Drop>::drop")]
        ctx.ob("C15.U4.guard-drop-resets-flag", "InternalSerializationGuard::drop",
               bool(dg) and any(c.name == "core::cell::Cell::set" and c.args[1].get("c", {}).get("int") == "0"
                                for c in dg[0].calls()), "", dg[0].loc if dg else "")

    # ---- U5
    n5 = 0
    for f in prog.fns.values():
        if f.crate != "minijinja":
            continue
        for bb, i, s in f.all_stmts():
            if s["k"] != "assign":
                continue
            rv = s["rv"]
            if rv["k"] == "ref" and rv.get("mut"):
                names = flow._proj_names(rv["place"])
                pr = rv["place"].get("p", [])
                if any(isinstance(e, dict) and e.get("of") == ENV and e.get("n") in ("filters", "tests", "globals") for e in pr):
                    n5 += 1
                    # flows into Arc::make_mut
                    dst = s["place"]["l"] if "p" not in s["place"] else None
                    ok = False
                    if dst is not None:
                        work = [dst]
                        seen_l = set()
                        while work:
                            l = work.pop()
                            if l in seen_l:
                                continue
                            seen_l.add(l)
                            for kind, ubb, obj in errflow.uses(f, l):
                                if kind == "call":
                                    c = [k for k in f.calls() if k.bb == ubb][0]
                                    if c.name == "alloc::sync::Arc::make_mut":
                                        ok = True
                                elif kind == "stmt" and "p" not in obj[1]["place"]:
                                    work.append(obj[1]["place"]["l"])
                    ctx.ob("C15.U5.registry-mutated-through-make_mut", "%s|%s" % (f.path, names[-1] if names else "?"), ok,
                           "a shared registry is mutated in place: clones of the environment would observe it", f.where(bb))
        for d in flow.stores(f):
            pr = d.place.get("p", [])
            if pr and isinstance(pr[-1], dict) and pr[-1].get("of") == ENV and pr[-1].get("n") in ("filters", "tests", "globals"):
                ctx.ob("C15.U5.registry-replaced-only-at-construction", "%s|%s" % (f.path, pr[-1]["n"]), False,
                       "registry field overwritten outside a constructor", f.where(d.bb))
    ctx.floor("C15.U5 mutable borrows of the registries", n5, 6)

    # ---- U6 witnesses (thorough)
    if ctx.tier == "thorough":
        run_witnesses(ctx)


def run_witnesses(ctx):
    wdir = os.path.join(VERIF, "witness")
    tgt = tempfile.mkdtemp(prefix="mjsa-witness-", dir=os.path.join(VERIF, ".cache"))
    try:
        shutil.copy(os.path.join(ctx.repo, "Cargo.lock"), os.path.join(wdir, "Cargo.lock"))
        env = dict(os.environ, CARGO_TARGET_DIR=tgt, CARGO_NET_OFFLINE="true", MJ_REPO=ctx.repo)
        # the crate path-depends on $repo/minijinja through a generated config
        with open(os.path.join(wdir, "Cargo.toml.in")) as fh:
            tpl = fh.read()
        with open(os.path.join(wdir, "Cargo.toml"), "w") as fh:
            fh.write(tpl.replace("@REPO@", os.path.abspath(ctx.repo)))
        r = subprocess.run(["cargo", "+nightly", "test", "--doc", "--offline"], cwd=wdir, env=env,
                           stdout=subprocess.PIPE, stderr=subprocess.STDOUT, text=True)
        out = r.stdout
        import re
        results = re.findall(r"^test (\S+.*?) \.\.\. (ok|FAILED)", out, re.M)
        if not results:
            raise CheckerBroken("witness doctests did not run:\n" + out[-2000:])
        for name, res in results:
            ctx.ob("C15.U6.type-level-witness", name.split(" - ")[1].split(" (line")[0].strip(), res == "ok",
                   "witness doctest %s: %s" % (name, res), "witness/src/lib.rs")
        ctx.floor("C15.U6 witnesses", len(results), 4)
    finally:
        shutil.rmtree(tgt, ignore_errors=True)
