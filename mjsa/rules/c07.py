"""C07 — value order / equality / hash laws (variant level) and comparator totality.

The laws *inside* one pair of representations (transitivity over concrete values) and the algebra of the collection
filters are value-level and NOT decided.  Decided by abstract interpretation over the 13 x 13 ordered pairs of
`ValueRepr` variants (only discriminants are tracked; callee summaries for coerce / as_f64 / integer conversion /
kind are themselves extracted from MIR):
 V1a equality never crosses kinds: `cmp` orders by kind first, so if `a == b` can be true for a pair of variants their
     kinds must be equal, otherwise == and the ordering disagree.
 V1b equal values hash alike: if `a == b` can be true the two variants must be hashed through the same hashing family.
 V1c `cmp` is defined for every pair: no pair of variants reaches `Option::unwrap` on a definitely-`None` operand.
 V1d `cmp` decides by kind first: the kind comparison result is returned whenever it is not Equal.
 V2  comparators handed to sort/min/max/dedup/binary-search in the filters are built only from total comparisons
     (`Ord::cmp` on Value/str/UniCase, `Ordering::reverse/then*`); `partial_cmp(..).unwrap()` and float compares are
     reported.
"""
import itertools

from .. import cfg, flow, arms, absint, query
from ..facts import op_place, norm_path

V = "minijinja::value::"
REPR = V + "ValueRepr"
KIND = V + "ValueKind"
EQ = "<minijinja::value::Value as core::cmp::PartialEq>::eq"
CMP = "<minijinja::value::Value as core::cmp::Ord>::cmp"
HASH = "<minijinja::value::Value as core::hash::Hash>::hash"
KINDFN = V + "Value::kind"
COERCE = V + "ops::coerce"
ASF64 = V + "ops::as_f64"
TRY128 = V + "argtypes::<impl core::convert::TryFrom<minijinja::value::Value> for i128>::try_from"
TRY64 = V + "argtypes::<impl core::convert::TryFrom<minijinja::value::Value> for i64>::try_from"


def int_try_from_model(name):
    """std integer conversions: Ok always when the source range fits the target"""
    import re
    if name == "<T as core::convert::TryFrom<U>>::try_from":
        return frozenset(["Ok"])          # blanket impl over Into: infallible
    m = re.search(r"TryFrom<(\w+)> for (\w+)>::try_from$", name)
    if m and name.startswith("core::convert::num::"):
        return frozenset(["Ok"]) if not query.lossy_int_cast(m.group(1), m.group(2)) else frozenset(["Ok", "Err"])
    return None


def _is_value_type(s):
    import re
    return re.search(r"minijinja::value::Value(?![A-Za-z_])", s) is not None


def enum_remap(prog, g, adt):
    """for a function `fn(E) -> E` of the program built from `if x == E::A { E::B } else { x }` / `match` arms: the
    mapping variant -> variant it computes (identity where the parameter is returned); None if it is not of that form"""
    if g.argc != 1 or g.kind == "closure":
        return None
    t0 = g.locals[0].get("s", "")
    t1 = g.locals[1].get("s", "")
    # the helper may take the enum itself or the value whose `kind()` it folds (`kind_rank(value: &Value)`)
    of_value = adt == KIND and _is_value_type(t1)
    if adt not in t0 or (adt not in t1 and not of_value):
        return None

    def is_src(o):
        if o.kind == "arg" and o.arg == 1 and not o.proj:
            return not of_value
        return of_value and o.kind == "call" and o.call.name == KINDFN and all(
            q.kind == "arg" and q.arg == 1 for q in flow.origins(g, o.call.args[0]))
    variants = [v["name"] for v in prog.adt(adt)["variants"]]
    mapping = {v: v for v in variants}

    def result_of(region):
        outs = set()
        for bb in region:
            for st in g.stmts(bb):
                if st["k"] == "assign" and st["place"] == {"l": 0}:
                    rv = st["rv"]
                    if rv["k"] == "agg" and rv.get("adt") == adt:
                        outs.add(rv["variant"])
                    elif rv["k"] == "use" and "c" not in rv["op"] and all(is_src(o) for o in flow.origins(g, rv["op"])):
                        outs.add("=")
                    else:
                        outs.add("?")
        return outs
    for sb in sorted(g.reachable):
        if g.term(sb)["k"] != "switch":
            continue
        cd = flow.cond_of(g, sb)
        ee = flow.enum_eq(g, cd)
        if ee is not None:
            var, other = ee
            if not all(is_src(o) or (not of_value and o.kind == "arg" and o.arg == 1) for o in other):
                return None
            side = {x for (_, x) in flow.true_side(g, sb, cd)}
            region = set()
            for x in side:
                region |= cfg.reach_from(g, x)
            # only the blocks that are not also reached from the other side
            others = set()
            for x in set(g.succ[sb]) - side:
                others |= cfg.reach_from(g, x)
            outs = result_of(region - others)
            if len(outs) != 1 or "?" in outs:
                return None
            o = outs.pop()
            mapping[var] = var if o == "=" else o
        elif cd.kind == "discr" and cd.adt == adt:
            if of_value and not all(is_src(o) for o in flow.origins(g, {"cp": cd.place})):
                return None
            regs = arms.arm_regions(prog, g, sb, adt)
            for v, reg in regs.items():
                outs = result_of(reg)
                if len(outs) != 1 or "?" in outs:
                    return None
                o = outs.pop()
                mapping[v] = v if o == "=" else o
        else:
            return None
    return mapping


class Tables:
    def __init__(self, ctx, prog):
        self.prog = prog
        self.remaps = {}
        self.variants = [v["name"] for v in prog.adt(REPR)["variants"]]
        self.discr = {v["name"]: v["discr"] for v in prog.adt(REPR)["variants"]}
        # kind per variant
        kf = prog.fn(KINDFN)
        sw = arms.enum_switches(prog, kf, REPR)
        ctx.need(sw, "C07: Value::kind has no switch on ValueRepr")
        regs = arms.arm_regions(prog, kf, sw[0][0], REPR)
        self.kind = {}
        for v, reg in regs.items():
            ks = {rv["variant"] for _, _, rv in arms.aggregates_in(kf, reg, KIND)}
            self.kind[v] = frozenset(ks)
        # hash family per variant
        hf = prog.fn(HASH)
        sw = arms.enum_switches(prog, hf, REPR)
        ctx.need(sw, "C07: Value::hash has no switch on ValueRepr")
        regs = arms.arm_regions(prog, hf, sw[0][0], REPR)
        self.hashfam = {}
        for v, reg in regs.items():
            fam = set()
            for c in arms.calls_in(hf, reg):
                if c.path == "core::hash::Hash::hash":
                    t = (c.self_ty or {}).get("s", "?").replace("&", "").strip()
                    # smart pointers hash as their pointee
                    import re
                    prev = None
                    while prev != t:
                        prev = t
                        t = re.sub(r"^(?:alloc::sync::Arc|alloc::boxed::Box|alloc::rc::Rc)<(.*)>$", r"\1", t)
                    fam.add(t)
            self.hashfam[v] = frozenset(fam)
        # single-value summaries
        self.asf64 = {}
        self.try128 = {}
        self.try64 = {}
        for v in self.variants:
            self.asf64[v] = self.summary(ASF64, v, 1, ref=True)
            self.try128[v] = self.summary(TRY128, v, 1, ref=False)
            self.try64[v] = self.summary(TRY64, v, 1, ref=False)
        self.coerce = {}
        cf = prog.fn(COERCE)
        for a, b in itertools.product(self.variants, repeat=2):
            rets, _ = absint.explore(prog, cf, {"a": {self.discr[a]}, "b": {self.discr[b]}}, self.classify2,
                                     models=lambda c, av, keys, asg: self.models(c, av, keys, {"a": a, "b": b}))
            self.coerce[(a, b)] = self.flat(rets)

    @staticmethod
    def flat(rets):
        out = set()
        for r in rets:
            if r is None or r == "?budget":
                out.add("?")
            else:
                out |= set(r)
        return frozenset(out)

    def summary(self, fpath, variant, argn, ref):
        f = self.prog.fn(fpath)

        def classify(o, adt):
            if o.kind == "arg" and o.arg == argn and tuple(o.proj) == ("0",):
                return "v"
            return None
        rets, _ = absint.explore(self.prog, f, {"v": {self.discr[variant]}}, classify,
                                 models=lambda c, av, keys, asg: int_try_from_model(c.name))
        return self.flat(rets)

    @staticmethod
    def classify2(o, adt):
        if o.kind == "arg" and tuple(o.proj) == ("0",):
            if o.arg == 1:
                return "a"
            if o.arg == 2:
                return "b"
        return None

    def models(self, c, argvals, keys, names):
        n = c.name
        m = int_try_from_model(n)
        if m is not None:
            return m
        k0 = keys[0] if keys else None
        if n == ASF64 and k0 in names:
            r = self.asf64[names[k0]]
            return None if "?" in r else r
        if n == TRY128 and k0 in names:
            r = self.try128[names[k0]]
            return None if "?" in r else r
        if n == TRY64 and k0 in names:
            r = self.try64[names[k0]]
            return None if "?" in r else r
        if n == COERCE and len(keys) >= 2 and keys[0] in names and keys[1] in names:
            r = self.coerce[(names[keys[0]], names[keys[1]])]
            return None if "?" in r else r
        if n == V + "Value::as_object" and k0 in names:
            return frozenset(["Some"]) if names[k0] == "Object" else frozenset(["None"])
        if n == KINDFN and k0 in names:
            return ("K", self.kind[names[k0]])
        if self.prog.has_fn(n) and argvals and argvals[0] is not None and len(argvals) == 1:
            # a helper that folds kinds into ordering classes (`kind_rank`: iterables rank with sequences)
            if n not in self.remaps:
                self.remaps[n] = enum_remap(self.prog, self.prog.fn(n), KIND)
            mp = self.remaps[n]
            if mp is not None:
                return ("K", frozenset(mp.get(x, x) for x in argvals[0]))
        if self.prog.has_fn(n) and len(keys) == 1 and k0 in names and (argvals[0] is None):
            # the same helper taking the value itself: kind() of the designated input, folded
            if n not in self.remaps:
                self.remaps[n] = enum_remap(self.prog, self.prog.fn(n), KIND)
            mp = self.remaps[n]
            if mp is not None and _is_value_type(self.prog.fn(n).locals[1].get("s", "")):
                return ("K", frozenset(mp.get(x, x) for x in self.kind[names[k0]]))
        if n == V + "Value::is_number" and k0 in names:
            return ("B", frozenset(["1" if self.kind[names[k0]] == frozenset(["Number"]) else "0"]))
        if n == V + "Value::is_tuple" and k0 in names and names[k0] != "Object":
            return ("B", frozenset(["0"]))
        if n == "<minijinja::value::ValueKind as core::cmp::Ord>::cmp" or (c.path == "core::cmp::Ord::cmp" and (c.self_ty or {}).get("adt") == KIND):
            a, b = argvals[0], argvals[1]
            if a is not None and b is not None:
                res = set()
                if a & b:
                    res.add("Equal")
                if len(a | b) > 1:
                    res |= {"Less", "Greater"}
                return frozenset(res)
        return None


def check_unknown_lengths(ctx, prog, fns, tag, len_suffix="enumerator_len"):
    """V5: an unknown length is not a length.  `enumerator_len()` is None for lazy iterables; comparing two such Options
    as values (`a.enumerator_len() != b.enumerator_len()`) makes a sized and an unsized sequence with the same items
    unequal under `==` while `cmp` (which walks the items) calls them Equal.  Inside equality / ordering the Option may
    only be destructured (both `Some`) before the numbers are compared."""
    n = 0
    for f in fns:
        for c in f.calls():
            nm_ = (c.full or "") + " " + c.name
            if not any(x in nm_ for x in ("PartialEq>::eq", "PartialEq>::ne", "PartialEq::eq", "PartialEq::ne", "PartialOrd>::partial_cmp",
                                          "PartialOrd::partial_cmp", "Ord>::cmp", "Ord::cmp")):
                continue
            st = (c.self_ty or {}).get("s", "") if hasattr(c, "self_ty") else ""
            if "Option" not in c.name and "Option" not in st and "Option" not in (c.full or ""):
                continue
            srcs = [o for a in c.args[:2] for o in flow.origins(f, a)]
            if any(o.kind == "call" and o.call.name.endswith(len_suffix) for o in srcs):
                n += 1
                ctx.ob("C07.V5.unknown-length-is-not-compared-as-a-length", tag + f.path, False,
                       "%s compares two `Option<usize>` lengths as values (%s): a lazy iterable (length unknown) then "
                       "never equals a sequence with the same items although `cmp` says Equal" % (f.path, c.name.split("::")[-1]),
                       f.where(c.bb))
    return n


LEN_SOURCES = ("::enumerator_len", "minijinja::value::Value::len", "::size_hint", "::len_hint")
CAPACITY_SINKS = ("::with_capacity", "::reserve", "::reserve_exact", "::untrusted_size_hint", "::with_capacity_and_hasher",
                  "::try_reserve")


def check_defaulted_lengths(ctx, prog, tag, rule="C07.V15.defaulted-unknown-length-only-sizes-buffers"):
    """V15 (round 10, seed C07-10): `Value::len()` / `enumerator_len()` answer None for a lazy iterable.  Replacing that
    None by a number (`unwrap_or(0)`, `unwrap_or_default()`) is harmless as a capacity hint and wrong everywhere else:
    arithmetic or a decision built on it treats every iterable of unknown length as empty, so the same items give another
    result as a lazy iterable than as a list (batch padding computed up front; negative slice bounds of an iterable).
    The defaulted number may flow (through copies, casts, arithmetic) into capacity arguments only."""
    from ..facts import op_place as _opl
    n = 0
    scope = [f for f in prog.fns.values() if f.crate in ("minijinja", "minijinja_contrib") and (
        f.loc.f.endswith(("filters.rs", "functions.rs", "tests.rs", "value/ops.rs", "value/mod.rs", "pycompat.rs", "globals.rs"))
        or "/filters/" in f.loc.f)]
    for f in scope:
        for c in f.calls():
            short_ = c.name.rsplit("::", 1)[-1]
            if short_ not in ("unwrap_or", "unwrap_or_default") or not c.name.startswith("core::option::Option"):
                continue
            if short_ == "unwrap_or" and not (len(c.args) == 2 and "c" in c.args[1]):
                continue
            srcs = [o for o in flow.origins(f, c.args[0], through_calls=lambda k: 0 if k.name.endswith(("::map", "::copied", "::cloned")) else None)]
            which = [o.call.name for o in srcs if o.kind == "call" and o.call.name.endswith(LEN_SOURCES)]
            if not which or c.dest is None or "p" in c.dest:
                continue
            if not (f.locals[c.dest["l"]].get("prim") or "").startswith(("usize", "u64", "u32", "i64")):
                continue
            # a value whose kind was tested to be one that always knows its length (a sequence, a string) is not lazy
            sized = False
            for gf in flow.guard_facts(prog, f, c.bb):
                if gf[0] == "matches" and gf[1] == "minijinja::value::ValueKind" and gf[3] is True and "Iterable" not in gf[2]:
                    sized = True
            if sized:
                continue
            n += 1
            tainted = {c.dest["l"]}
            uses = []
            grew = True
            while grew:
                grew = False
                for bb, i, st in f.all_stmts():
                    if st["k"] != "assign":
                        continue
                    rv = st["rv"]
                    ops_ = [rv[k_] for k_ in ("op", "a", "b") if isinstance(rv.get(k_), dict)] + [x for x in rv.get("ops", []) if isinstance(x, dict)]
                    hit = any(_opl(o) is not None and _opl(o)["l"] in tainted for o in ops_)
                    if rv["k"] in ("ref",) and rv["place"]["l"] in tainted:
                        hit = True
                    if hit:
                        if rv["k"] == "agg" and rv.get("closure"):
                            uses.append(("captured by a closure", bb))
                            continue
                        l_ = st["place"]["l"]
                        if l_ not in tainted and l_ != 0:
                            tainted.add(l_)
                            grew = True
                        elif l_ == 0:
                            uses.append(("returned", bb))
                for d in f.calls():
                    if d.bb == c.bb and d.name == c.name:
                        continue
                    if any(_opl(a) is not None and _opl(a)["l"] in tainted for a in d.args):
                        if d.name.endswith(CAPACITY_SINKS):
                            if d.name.endswith("untrusted_size_hint") and d.dest is not None and "p" not in d.dest and d.dest["l"] not in tainted:
                                tainted.add(d.dest["l"])
                                grew = True
                            continue
                        uses.append((d.name.rsplit("::", 2)[-2] + "::" + d.name.rsplit("::", 1)[-1] if d.name.count("::") > 1 else d.name, d.bb))
                for sb in sorted(f.reachable):
                    t = f.term(sb)
                    if t["k"] == "switch":
                        pl = _opl(t["discr"])
                        if pl is not None and pl["l"] in tainted:
                            uses.append(("decides a branch", sb))
                    if t["k"] == "assert":
                        pass
            uses = sorted(set(uses))
            ctx.ob(rule, "%s%s|%s" % (tag, f.path, which[0].rsplit("::", 1)[-1]), not uses,
                   "a length that is unknown for lazy iterables is replaced by a default and then used for more than a capacity "
                   "hint: %s" % [u[0] for u in uses], f.where(uses[0][1] if uses else c.bb))
    return n


def _param_deps(f, op, depth=0, split=True):
    """parameters a value is computed from (through calls and aggregates, projection-sensitive where the facts are)"""
    out = set()
    if depth > 8 or op is None or "c" in op:
        return out
    for o in flow.origins(f, op):
        if o.kind == "arg":
            out.add(o.arg)
        elif o.kind == "call":
            sub = set()
            for a in o.call.args:
                sub |= _param_deps(f, a, depth + 1, split)
            if split and len(sub - {"?"}) > 1:
                sub = {"?"}          # a value built from both operands (`a.zip(b)`): which part is which is not tracked
            out |= sub
        elif o.kind == "agg":
            for a in o.rv["ops"]:
                out |= _param_deps(f, a, depth + 1, split)
        elif o.kind in ("bin", "un", "cast") and getattr(o, "rv", None):
            for k in ("a", "b", "op"):
                if isinstance(o.rv.get(k), dict):
                    out |= _param_deps(f, o.rv[k], depth + 1, split)
    return out


ORD_COMBINATORS = ("core::cmp::Ordering::then", "core::cmp::Ordering::then_with")


def _reverse_parities(f, call):
    """with how many `Ordering::reverse` (mod 2) the result of a comparison reaches the function's result; None when
    it is inspected on the way (a `match` on it) and the rule has nothing to say"""
    if call.dest is None or "p" in call.dest:
        return None
    seen = set()
    work = [(call.dest["l"], 0)]
    out = set()
    while work:
        l, par = work.pop()
        if (l, par) in seen:
            continue
        seen.add((l, par))
        if l == 0:
            out.add(par)
            continue
        used = False
        for bb, i, st in f.all_stmts():
            if st["k"] != "assign":
                continue
            rv = st["rv"]
            if rv["k"] == "use":
                q = op_place(rv["op"])
                if q is not None and "p" not in q and q["l"] == l and "p" not in st["place"]:
                    work.append((st["place"]["l"], par))
                    used = True
            elif rv["k"] == "discr" and isinstance(rv.get("place"), dict) and rv["place"]["l"] == l:
                return None
        for c in f.calls():
            if c.bb == call.bb or not c.args:
                continue
            q = op_place(c.args[0])
            if q is None or "p" in q or q["l"] != l:
                if any(op_place(a) is not None and op_place(a).get("l") == l for a in c.args[1:]):
                    return None
                continue
            if c.dest is None or "p" in c.dest:
                return None
            if c.name == "core::cmp::Ordering::reverse":
                work.append((c.dest["l"], par ^ 1))
            elif c.name in ORD_COMBINATORS:
                work.append((c.dest["l"], par))
            else:
                return None
            used = True
        for sb in f.reachable:
            t = f.term(sb)
            if t["k"] == "switch":
                q = op_place(t["discr"])
                if q is not None and "p" not in q and q["l"] == l:
                    return None
    return out


def check_comparator_orientation(ctx, prog, tag, crates=("minijinja", "minijinja_contrib"),
                                 rule="C07.V17.comparison-keeps-the-orientation-of-its-operands"):
    """V17 (round 12, seed C07-12): an order is antisymmetric only if a comparator that hands its two operands to an
    inner comparison either hands them in their own order and returns the verdict as it is, or hands them swapped (a
    mixed-type helper takes the float / the signed operand first) and returns the verdict *reversed* - or the other way
    round throughout (a descending comparator); the arms of one comparator must agree on the direction.  In every
    function that takes two operands and returns an `Ordering`, each inner comparison whose two arguments are computed
    from one operand each is classified (straight / swapped) and the number of `Ordering::reverse` between it and the
    function's result must match; an inner comparison both of whose arguments can come from either operand (one match
    arm bound by an or-pattern over both orientations) has no orientation at all.  Comparisons whose verdict is
    inspected (`match a.cmp(b) { .. }`) are not judged."""
    n = 0
    for f in sorted(prog.fns.values(), key=lambda x: x.path):
        if f.crate not in crates or f.kind == "closure" or f.argc < 2:
            continue
        if "Ordering" not in f.locals[0].get("s", "") or "Option" in f.locals[0].get("s", ""):
            continue
        judged = []
        for c in f.calls():
            last = c.name.split("::")[-1]
            g = prog.fns.get(c.resolved or c.path)
            is_cmp = last in ("cmp", "total_cmp") or (g is not None and g.kind != "closure" and g.argc == 2
                                                        and "Ordering" in g.locals[0].get("s", "") and "Option" not in g.locals[0].get("s", ""))
            if not is_cmp or len(c.args) != 2:
                continue
            d0, d1 = _param_deps(f, c.args[0]), _param_deps(f, c.args[1])
            if not d0 or not d1 or "?" in d0 or "?" in d1:
                continue
            inst = "%s%s|%s" % (tag, f.path, last)
            if len(d0) == 1 and len(d1) == 1 and d0 != d1:
                par = _reverse_parities(f, c)
                if par is None or len(par) != 1:
                    continue        # inspected on the way, or reversed under a direction flag (`if reverse { o.reverse() }`)
                n += 1
                swapped = min(d0) > min(d1)
                judged.append((c, last, inst, swapped, 1 in par))
            elif len(d0) == 2 and d0 == d1:
                if _reverse_parities(f, c) is None:
                    continue
                n += 1
                ctx.ob(rule, inst + "|either", False,
                       "both arguments of the %s in %s can come from either operand (an arm bound for both orientations): one of "
                       "the two orientations gets the verdict of the other, so the order is not antisymmetric"
                       % (last, f.path.split("::")[-1]), f.where(c.bb))
        # the direction a comparison contributes: ascending when it is straight and unreversed or swapped and reversed.
        # A comparator may be descending as a whole (`b.cmp(a)` everywhere); what breaks antisymmetry is arms that disagree
        asc = [j for j in judged if j[3] == j[4]]
        desc = [j for j in judged if j[3] != j[4]]
        odd = desc if len(desc) <= len(asc) else asc
        if not asc or not desc:
            odd = []
        for (c, last, inst, swapped, rev) in judged:
            ctx.ob(rule, inst + ("|swapped" if swapped else "|straight"), (c, last, inst, swapped, rev) not in odd,
                   "%s hands its operands to %s %s and returns the verdict %s, against the direction of its other %d comparisons: "
                   "the order it defines is not antisymmetric (both `a < b` and `b < a` hold for some pair), sort results depend "
                   "on the input order and min / max return members that do not bound the others"
                   % (f.path.split("::")[-1], last, "swapped" if swapped else "in their own order",
                      "reversed" if rev else "as it is", len(judged) - len(odd)), f.where(c.bb))
    return n



def check_stable_sorts(ctx, prog, tag, crates=("minijinja", "minijinja_contrib"), rule="C07.V16.values-are-sorted-with-a-stable-sort"):
    """V16 (round 11, seed C07-11): `sort` returns a *stable* ordered permutation (and `groupby`, `dictsort` build on the
    same helper).  Nothing in the engine sorts template values with an unstable algorithm: a `sort_unstable*` over a
    collection whose items are or contain `Value`s is reported (ties of distinguishable items - records with equal keys,
    'a' / 'A' under case folding, 1 / 1.0 - may swap once the list is longer than std's insertion-sort threshold)."""
    n = 0
    for f in prog.fns.values():
        if f.crate not in crates:
            continue
        for c in f.calls():
            last = c.name.rsplit("::", 1)[-1]
            if not last.startswith("sort"):
                continue
            n += 1
            if not last.startswith("sort_unstable"):
                continue
            ty = ""
            p = op_place(c.args[0]) if c.args and "c" not in c.args[0] else None
            if p is not None:
                ty = f.locals[p["l"]].get("s", "")
            what = ty + " " + (c.full or "")
            if "Value" not in what and f.kind != "closure":
                # a generic helper (`safe_sort<T>`): what its callers hand it
                for cc in prog.calls_of(f.path):
                    for a in cc.args:
                        q = op_place(a)
                        if q is not None:
                            what += " " + cc.fn.locals[q["l"]].get("s", "")
                    what += " " + (cc.full or "")
            ctx.ob(rule, "%s%s|%s" % (tag, f.path, last), "Value" not in what,
                   "%s sorts %s with %s: equal keys may change their relative order" % (f.path.split("::")[-1], ty or "values", last), f.where(c.bb))
    return n


def check_object_pairs(ctx, prog, tag):
    """V1e: the variant-level domain treats all objects as one representation; inside it `==` dispatches on the pair of
    `ObjectRepr`s (map / sequence / iterable / plain).  `cmp` orders by `kind()` first, so a pair of object
    representations that `==` accepts as comparable (any arm but the constant-false fallback) must map to the same
    `ValueKind` in `Value::kind`, or the two values are equal and ordered at once."""
    OR = "minijinja::value::object::ObjectRepr"
    f = prog.fns.get(EQ)
    kf = prog.fns.get(KINDFN)
    if f is None or kf is None:
        return
    sws = {s_[0]: arms.variant_targets(prog, f, s_[0], OR) for s_ in arms.enum_switches(prog, f, OR)}
    ksw = arms.enum_switches(prog, kf, OR)
    if not sws or not ksw:
        ctx.need(False, "C07.V1e: no ObjectRepr dispatch found in eq / kind")
    kregs = arms.arm_regions(prog, kf, ksw[0][0], OR)
    kind_of = {}
    for v_, reg_ in kregs.items():
        ks_ = {rv["variant"] for _, _, rv in arms.aggregates_in(kf, reg_, KIND)}
        kind_of[v_] = "/".join(sorted(ks_)) or "?"
    # `cmp` may fold kinds into ordering classes before it compares them (kind_rank: iterables rank with sequences)
    cmpf = prog.fns.get(CMP)
    if cmpf is not None:
        for c in cmpf.calls():
            if c.path == "core::cmp::Ord::cmp" and (c.self_ty or {}).get("adt") == KIND:
                gs = {o.call.name for a in c.args for o in flow.origins(cmpf, a) if o.kind == "call" and o.call.name != KINDFN
                      and prog.has_fn(o.call.name)}
                for g in gs:
                    mp = enum_remap(prog, prog.fn(g), KIND)
                    if mp is not None:
                        kind_of = {v_: mp.get(k_, k_) for v_, k_ in kind_of.items()}
    which = {}
    for sb in sws:
        cd = flow.cond_of(f, sb)
        idx = None
        for e in (cd.place or {}).get("p", []):
            if isinstance(e, dict) and "f" in e:
                idx = e["f"]
        which[sb] = idx
    if set(which.values()) - {0, 1}:
        ctx.need(False, "C07.V1e: the ObjectRepr dispatch in eq is not on a pair")

    def is_false(bb, depth=0):
        for st in f.stmts(bb):
            if st["k"] == "assign" and st["place"] == {"l": 0} and st["rv"]["k"] == "use" and "c" in st["rv"]["op"]:
                return const_int_(st["rv"]["op"]) == 0
        nx = list(f.succ[bb])
        if f.term(bb)["k"] == "goto" and len(nx) == 1 and depth < 3:
            return is_false(nx[0], depth + 1)
        return False
    entry = min(sws, key=lambda b: len(cfg.dominators(f).get(b, ())))
    variants = sorted(kind_of)
    n = 0
    for va in variants:
        for vb in variants:
            bb = entry
            for _ in range(8):
                if bb not in sws:
                    break
                bb = sws[bb].get(va if which[bb] == 0 else vb)
                if bb is None:
                    break
            if bb is None:
                continue
            n += 1
            comparable = not is_false(bb)
            same_kind = kind_of.get(va) == kind_of.get(vb)
            ctx.ob("C07.V1e.object-equality-never-crosses-kinds", "%s%s~%s" % (tag, va, vb), same_kind or not comparable,
                   "`==` compares a %s object with a %s object item by item (they can be equal: `[1, 2] == range(1, 3)`), but "
                   "`cmp` orders by kind first and the two have different kinds: equal values that are also `<`" % (va, vb),
                   f.where(bb))
    ctx.floor("C07.V1e pairs of object representations" + tag, n, 9)


def check_reverse_arms(ctx, prog, tag):
    """V10: `reverse` is an involution only if every representation is actually reversed.  In `Value::reverse` each arm
    of the dispatch on the object's `Enumerator` that builds the result from the enumerator's own iterator must apply
    a reversal (`rev()`, `reverse()`, `next_back`) - in the arm or in a closure built there."""
    ENUMR = "minijinja::value::object::Enumerator"
    f = prog.fns.get(V + "Value::reverse")
    if f is None:
        return
    sw = arms.enum_switches(prog, f, ENUMR)
    if not sw:
        ctx.need(False, "C07.V10: Value::reverse has no dispatch on Enumerator")
    regs = arms.arm_regions(prog, f, sw[0][0], ENUMR)
    n = 0
    for v, reg in sorted(regs.items()):
        if v in ("NonEnumerable", "Empty"):
            continue
        n += 1
        names = [c.name for c in arms.calls_in(f, reg)]
        for bb in reg:
            for st in f.stmts(bb):
                rv = st.get("rv", {})
                if rv.get("k") == "agg" and rv.get("closure"):
                    cl = prog.fns.get(norm_path(rv["closure"]))
                    scope = [cl] + prog.closures_of(cl.path) if cl is not None else []
                    for g in scope:
                        names += [c.name for c in g.calls()]
        rev = any(x.endswith(("Iterator::rev", "<impl [T]>::reverse", "::next_back", "::rfold")) and not x.startswith("minijinja::")
                  for x in names)
        ctx.ob("C07.V10.every-representation-is-reversed", "%s%s" % (tag, v), rev,
               "the %s arm of Value::reverse hands the enumerator's items on in their original order (no rev / reverse): "
               "`x|reverse` is `x`, and `x|reverse|reverse` (which collects and reverses) is not" % v, f.loc)
    ctx.floor("C07.V10 enumerator arms of Value::reverse" + tag, n, 5)


def check_map_order(ctx, prog, tag):
    """V1f: with the insertion-ordered map (feature preserve_order: IndexMap) two maps with the same pairs in another
    order are `==` (equality looks every key up).  The ordering and the hash must not depend on the enumeration order
    either: the (Map, Map) arm of `cmp` has to sort the pairs (or compare through lookups) and the object hash has to
    combine the pairs commutatively."""
    uses_indexmap = any("indexmap::" in c.name for f in prog.fns.values() if f.crate == "minijinja" for c in f.calls())
    if not uses_indexmap:
        ctx.count("C07.V1f not applicable: maps enumerate in key order (BTreeMap)" + tag)
        return
    OR = "minijinja::value::object::ObjectRepr"
    cf = prog.fns.get(CMP)
    if cf is not None:
        sws = {s_[0]: arms.variant_targets(prog, cf, s_[0], OR) for s_ in arms.enum_switches(prog, cf, OR)}
        if sws:
            entry = min(sws, key=lambda b: len(cfg.dominators(cf).get(b, ())))
            t1 = sws[entry].get("Map")
            t2 = sws.get(t1, {}).get("Map") if t1 in sws else t1
            region = cfg.region_dominated_by(cf, t2) if t2 is not None else set()
            names = [c.name for c in arms.calls_in(cf, region)]
            canonical = any(x.endswith(("::sort", "::sort_by", "::sort_unstable", "::sort_by_key", "BTreeMap<K, V>>::from_iter")) or
                            "btree" in x for x in names)
            ctx.ob("C07.V1f.map-order-does-not-depend-on-insertion-order", tag + "cmp", canonical,
                   "the (Map, Map) arm of cmp compares the pairs in enumeration order (%s): `{'a':1,'b':2} == {'b':2,'a':1}` is "
                   "true but the two maps are also ordered (`<` is true, `unique` keeps both)" %
                   [x.split("::")[-1] for x in names][:6], cf.loc)
    hf = prog.fns.get("<minijinja::value::object::DynObject as core::hash::Hash>::hash")
    if hf is not None:
        names = [c.name for c in hf.calls()]
        commut = any(x.endswith(("::wrapping_add", "::bitxor", "::sort", "::sort_by")) for x in names) or any(
            s_.get("rv", {}).get("k") == "bin" and s_["rv"].get("op") in ("BitXor", "Add") for _, _, s_ in hf.all_stmts())
        ctx.ob("C07.V1f.map-order-does-not-depend-on-insertion-order", tag + "hash", commut,
               "the object hash feeds the pairs to the hasher in enumeration order: equal maps built in a different order "
               "hash differently", hf.loc)


def const_int_(op):
    from ..facts import const_int
    return const_int(op)




SMALLSTR = "minijinja::value::SmallStr"


def _mentions_buf(x):
    """does a place / operand / rvalue (JSON) project the inline buffer of a SmallStr"""
    if isinstance(x, dict):
        if x.get("n") == "buf" and x.get("of") == SMALLSTR:
            return True
        return any(_mentions_buf(v) for v in x.values())
    if isinstance(x, list):
        return any(_mentions_buf(v) for v in x)
    return False


def check_inline_padding(ctx, prog, tag):
    """V11 (after seed C07-7): an inline string is the first `len` bytes of its buffer; the rest is padding.  `==` and
    the hash look at `as_str()`; anything that observes the whole buffer (comparing the arrays, hashing them) tells
    'a' from 'a\0' differently from `==` - the order then says Equal for values that are not equal.  Every read of
    `SmallStr.buf` is therefore a slice `[..len]` of the same object (or the derived Clone)."""
    rule = "C07.V11.inline-string-padding-is-never-observed"
    n = 0
    for f in prog.fns.values():
        if f.crate != "minijinja":
            continue
        if f.path.startswith("<" + SMALLSTR + " as core::clone::Clone>"):
            continue
        body_reads = []
        for bb, i, st in f.all_stmts():
            if st["k"] != "assign":
                continue
            if _mentions_buf(st["rv"]):
                body_reads.append((bb, st))
        call_reads = [(c, k) for c in f.calls() for k, a in enumerate(c.args) if _mentions_buf(a)]
        if not body_reads and not call_reads:
            continue
        short = f.path.split("::")[-1]
        for bb, st in body_reads:
            rv = st["rv"]
            plain_ref = rv["k"] == "ref" and "p" not in st["place"] and rv["place"].get("p") and \
                isinstance(rv["place"]["p"][-1], dict) and rv["place"]["p"][-1].get("n") == "buf"
            if not plain_ref:
                n += 1
                ctx.ob(rule, "%s%s|%s" % (tag, short, rv["k"]), False,
                       "%s reads the whole inline buffer of a SmallStr (%s), padding included" % (short, rv["k"]), f.where(bb))
        for c in f.calls():
            for k, a in enumerate(c.args):
                # the function projects `SmallStr.buf` somewhere (checked above): an argument whose provenance goes
                # through a field called `buf` is that buffer
                if not (_mentions_buf(a) or any("buf" in o.proj for o in flow.origins(f, a))):
                    continue
                n += 1
                ok = False
                if c.name.endswith("::index") or c.name.endswith("::index_mut"):
                    if k == 0 and len(c.args) > 1:
                        for o in flow.origins(f, c.args[1]):
                            if o.kind == "agg" and o.rv.get("adt", "").startswith("core::ops::range::Range") and o.rv["ops"]:
                                conv = lambda k: 0 if (k.name.endswith(">::from") or k.name.endswith(">::into")
                                                       or k.name.endswith("::unwrap") or k.name.endswith(">::try_from")) else None
                                ends = flow.origins(f, o.rv["ops"][-1], through_calls=conv)
                                if ends and all("len" in e.proj for e in ends):
                                    ok = True
                ctx.ob(rule, "%s%s|%s" % (tag, short, c.name.split("::")[-1]), ok,
                       "%s hands the whole inline buffer of a SmallStr to %s: the bytes after `len` are padding, and an "
                       "order / hash / equality computed over them disagrees with `==` on the string ('a' vs 'a\\0')"
                       % (short, c.name), f.where(c.bb))
    ctx.floor("C07.V11 reads of the inline string buffer" + tag, n, 1)



def strview_is_guarded(k, cc):
    """`cc` is a call of Value::as_str in function k: a test `kind() == String` on the same value holds on every path to
    it (directly as a dominating guard, or folded into a boolean first).  Bytes that are valid UTF-8 have a string view
    as well, so code that folds / compares through the view must first establish that the value *is* a string."""
    who = {o_.key() for o_ in flow.origins(k, cc.args[0])}
    for (sb_, taken_) in flow.guards(k, cc.bb):
        cd_ = flow.cond_of(k, sb_)
        ee_ = flow.enum_eq(k, cd_)
        side_ = flow.bool_true_labels(taken_)
        if ee_ is None or side_ is None or ee_[0] != "String":
            continue
        truth_ = (side_ != cd_.neg) != cd_.call.name.endswith("::ne")
        if truth_ and any(o_.kind == "call" and o_.call.name == KINDFN and (
                {q_.key() for q_ in flow.origins(k, o_.call.args[0])} & who) for o_ in ee_[1]):
            return True
    # the test may be folded into a boolean first (`let foldable = !cs && a.kind() == String && ..`):
    # the call is unreachable once the true side of every such test on this value is taken away
    ev_edges, ev_calls = set(), set()
    for sb_ in sorted(k.reachable):
        if k.term(sb_)["k"] != "switch":
            continue
        cd_ = flow.cond_of(k, sb_)
        ee_ = flow.enum_eq(k, cd_) if cd_.kind == "call" else None
        if ee_ is None or ee_[0] != "String":
            continue
        if any(o_.kind == "call" and o_.call.name == KINDFN and (
                {q_.key() for q_ in flow.origins(k, o_.call.args[0])} & who) for o_ in ee_[1]):
            ev_edges |= cfg.bool_edges(k, sb_, (not cd_.call.name.endswith("::ne")) != cd_.neg)
    for c2_ in k.calls():
        if c2_.name.endswith("PartialEq>::eq") and c2_.dest is not None:
            ee2_ = flow.enum_eq(k, flow.Cond("call", c2_.bb, call=c2_))
            if ee2_ is not None and ee2_[0] == "String" and any(
                    o_.kind == "call" and o_.call.name == KINDFN and (
                        {q_.key() for q_ in flow.origins(k, o_.call.args[0])} & who) for o_ in ee2_[1]):
                ev_calls.add(c2_.bb)
    if ev_edges or ev_calls:
        reach_, _ = cfg.reach_with_bool_phis(k, ev_edges, evidence_calls=ev_calls)
        return cc.bb not in reach_
    return False



STRING_REPR_REVIEWED = {
    "minijinja::utils::write_with_html_escaping": "the SmallStr arm is a fast path for integer-looking inline strings; every other string goes to the generic escaping below it",
    "minijinja::utils::write_escaped": "only the heap representation carries the safe flag (`String(_, Safe)`); plain strings of both representations fall to the escaping arms",
    "minijinja::value::Value::is_safe": "only the heap representation carries the safe flag; an inline string is never safe",
    "<minijinja::value::Value as core::cmp::PartialEq>::eq": "nested match on the pair of representations: the (String, SmallStr) / (SmallStr, String) rows list one each, all four rows are present (V1a/V1b decide the pairs)",
    "<minijinja::value::Value as core::cmp::Ord>::cmp": "nested match on the pair of representations (see eq); V1c/V1d decide the pairs",
    "<minijinja::value::Value as serde_core::de::Deserializer<'de>>::deserialize_any": "nested: the SmallStr arm borrows the inline buffer, the String arm sits in the outer match (T4 checks that both visit text)",
}


def check_string_reprs(ctx, prog, tag, rule, scope):
    """a string value has two representations (heap `String`, inline `SmallStr` up to 22 bytes).  Code that matches on
    the representation and names one of them names the other as well - otherwise what it does depends on the length of
    the string (seed C16-8: enum unit variants longer than 22 bytes were refused).  The switches that list exactly one
    are a reviewed table (function -> reason); the count per function is part of the key."""
    a = prog.adt(REPR)
    by = {v["name"]: v["discr"] for v in a["variants"]}
    n = 0
    for f in sorted(prog.fns.values(), key=lambda g: g.path):
        if f.crate != "minijinja" or not scope(f):
            continue
        asym = []
        for sb, cd in arms.enum_switches(prog, f, REPR):
            listed = {v for v, _ in f.term(sb)["arms"]}
            n += 1
            if (by["String"] in listed) != (by["SmallStr"] in listed):
                if by["String"] in listed:
                    # only the heap representation carries the safe flag: an arm that goes on to look at that flag
                    # (`String(ref s, StringType::Safe)`) has no inline counterpart to name
                    reg = arms.arm_regions(prog, f, sb, REPR).get("String", set())
                    looks_at_flag = False
                    for b in reg:
                        for st in f.stmts(b):
                            rv = st.get("rv", {})
                            if st["k"] == "assign" and rv.get("k") == "discr" and rv.get("adt") == "minijinja::value::StringType":
                                looks_at_flag = True
                    if looks_at_flag:
                        continue
                asym.append((sb, "String" if by["String"] in listed else "SmallStr"))
        if not asym:
            continue
        key = f.path.replace("minijinja::value::deserialize::<impl serde_core::de::Deserializer<'de> for minijinja::value::Value>",
                             "<minijinja::value::Value as serde_core::de::Deserializer<'de>>")
        why = STRING_REPR_REVIEWED.get(key)
        base_n = REVIEWED_COUNTS.get(key)
        ok = why is not None and (base_n is None or len(asym) <= base_n)
        ctx.ob(rule, "%s%s|%s" % (tag, key, "+".join(sorted(x for _, x in asym))), ok,
               ("reviewed: " + why) if ok else
               "%s matches on the representation of a value and lists only the %s representation of strings (%d switch(es)): "
               "the other one (inline strings hold up to 22 bytes) takes the default arm, so the outcome depends on the length "
               "of the string" % (f.path.split("::")[-1], "/".join(sorted({x for _, x in asym})), len(asym)), f.where(asym[0][0]))
    return n


REVIEWED_COUNTS = {
    "minijinja::utils::write_with_html_escaping": 1, "minijinja::utils::write_escaped": 1, "minijinja::value::Value::is_safe": 1,
    "<minijinja::value::Value as core::cmp::PartialEq>::eq": 2, "<minijinja::value::Value as core::cmp::Ord>::cmp": 2,
    "<minijinja::value::Value as serde_core::de::Deserializer<'de>>::deserialize_any": 1,
}



def check_group_order(ctx, prog, tag, rule="C07.V14.grouping-order-is-the-sorting-order"):
    """V14 (after seed C07-9): a filter that sorts its items and then splits the sorted run wherever two neighbours
    differ (groupby) partitions by key only if "differ" is decided by the order it sorted with - same comparator, same
    flags.  Sorting by plain `cmp` and grouping by the case-folding comparator puts the two spellings of one key into
    different groups whenever another key sorts between them."""
    n = 0
    ORD = "core::cmp::Ordering"

    def ord_calls(g):
        return [c for c in g.calls() if c.dest is not None and "p" not in c.dest and g.locals[c.dest["l"]].get("adt") == ORD
                and not c.name.startswith("core::cmp::Ordering::")]

    def flag_keys(g, c, host=None):
        """origin keys of the non-value arguments (position >= 2), closure captures resolved in the host"""
        out = []
        caps = flow.closure_captures(prog, g) if g.kind == "closure" else None
        for a in c.args[2:]:
            if "c" in a:
                out.append(("const", str(a["c"].get("int"))))
                continue
            ks = set()
            for o in flow.origins(g, a):
                if o.kind == "const":
                    ks.add(("const", str(o.const.get("int"))))
                elif g.kind == "closure" and o.kind == "arg" and o.arg == 1 and o.proj and o.proj[0].isdigit() and caps is not None \
                        and int(o.proj[0]) < len(caps):
                    for co in caps[int(o.proj[0])]:
                        ks.add(("host",) + tuple(str(x) for x in co.key()))
                else:
                    ks.add(("host",) + tuple(str(x) for x in o.key()))
            out.append(tuple(sorted(ks)))
        return tuple(out)
    for f in sorted(prog.fns.values(), key=lambda g: g.path):
        if f.kind == "closure" or f.crate not in ("minijinja", "minijinja_contrib") or not (
                f.loc.f.endswith("filters.rs") or f.loc.f.endswith("filters/mod.rs")):
            continue
        sorts = [c for c in f.calls() if any(c.name.endswith(x) for x in SORTERS) and ("sort" in c.name.split("::")[-1])]
        if not sorts:
            continue
        loops = cfg.natural_loops(f)
        in_loop = set().union(*[b for _, b in loops]) if loops else set()
        groupers = [c for c in ord_calls(f) if c.bb in in_loop and any(cfg.can_reach(f, s_.bb, c.bb) for s_ in sorts)]
        if not groupers:
            continue
        sort_sigs = set()
        for s_ in sorts:
            for a in s_.args:
                for o in flow.origins(f, a):
                    if o.kind == "agg" and o.rv.get("closure"):
                        cl = prog.fns.get(norm_path(o.rv["closure"]))
                        if cl is not None:
                            for c in ord_calls(cl):
                                sort_sigs.add((c.name, flag_keys(cl, c, f)))
        for c in groupers:
            n += 1
            sig = (c.name, flag_keys(f, c))
            ctx.ob(rule, "%s%s|%s" % (tag, f.path, c.name.split("::")[-1]), sig in sort_sigs,
                   "%s splits the sorted items where %s says two neighbours differ, but it sorted them with %s: items the "
                   "grouping comparison calls equal need not be adjacent, so one key can end up in several groups"
                   % (f.path.split("::")[-1], c.name.split("::")[-1], sorted(x[0].split("::")[-1] for x in sort_sigs) or "no comparator call"),
                   f.where(c.bb))
    return n



SETS = ("BTreeSet", "HashSet", "IndexSet", "BTreeMap", "HashMap", "IndexMap")


def check_dedup(ctx, prog, tag, rule="C07.V12."):
    """V12: a filter that removes duplicates decides by the seen set, for every item.  Found by role: a function of the
    filter modules with a loop that tests membership in a set (`contains` / `insert`) and pushes onto a vector.
      (a) every push inside that loop lies on the not-yet-seen side of the membership test;
      (b) every path from the iterator's `next()` to the next iteration passes the test (no item skips it);
      (c) the value looked up and the value recorded are the same value;
      (d) a key derived through the string view (`as_str()` + case folding) is derived from strings only."""
    n = 0
    for f in sorted(prog.fns.values(), key=lambda g: g.path):
        if f.crate not in ("minijinja", "minijinja_contrib") or not (f.loc.f.endswith("filters.rs") or f.loc.f.endswith("filters/mod.rs")):
            continue
        tests = [c for c in f.calls() if c.name.endswith(("::contains", "::insert")) and any(s in c.name for s in SETS[:3])]
        pushes = [c for c in f.calls() if c.name == "alloc::vec::Vec::push"]
        if not tests or not pushes:
            continue
        for h, body in cfg.natural_loops(f):
            t_in = [c for c in tests if c.bb in body]
            p_in = [c for c in pushes if c.bb in body]
            if not t_in or not p_in:
                continue
            n += 1
            short = f.path.split("::")[-1]
            # (a)
            for pc in p_in:
                ok = False
                for (sb, taken) in flow.guards(f, pc.bb):
                    cd = flow.cond_of(f, sb)
                    side = flow.bool_true_labels(taken)
                    if cd.kind != "call" or side is None or cd.call.bb not in {c.bb for c in t_in}:
                        continue
                    truth = (side != cd.neg)
                    if (cd.call.name.endswith("::contains") and not truth) or (cd.call.name.endswith("::insert") and truth):
                        ok = True
                ctx.ob(rule + "kept-item-was-not-seen-before", "%s%s|push" % (tag, f.path), ok,
                       "%s pushes an item onto its result without having found it absent from the set of values seen so "
                       "far: the result can hold two `==` items (unique: a duplicate-free subsequence)" % short, f.where(pc.bb))
            # (b)
            nexts = [c for c in f.calls() if c.bb in body and c.name.endswith("::next")]
            back = {t for (t, hh) in cfg.back_edges(f) if hh == h}
            okb = bool(nexts) and all(cfg.paths_must_pass(f, c.target if c.target is not None else c.bb,
                                                          [t.bb for t in t_in], back) for c in nexts)
            ctx.ob(rule + "every-item-is-looked-up", "%s%s|loop" % (tag, f.path), okb,
                   "a path through the loop of %s reaches the next item without looking the current one up in the set of "
                   "values seen so far" % short, f.where(h))
            # (c)
            looked = [c for c in t_in if c.name.endswith("::contains")]
            stored = [c for c in t_in if c.name.endswith("::insert")]
            if looked and stored:
                thru = lambda k: 0 if k.name.endswith(("::clone", "::borrow", "::deref")) else None
                lk = set().union(*[{o.key() for o in flow.origins(f, c.args[1], through_calls=thru)} for c in looked])
                stv = set().union(*[{o.key() for o in flow.origins(f, c.args[1], through_calls=thru)} for c in stored])
                ctx.ob(rule + "looked-up-value-is-the-recorded-one", "%s%s|key" % (tag, f.path), bool(lk & stv) and lk == stv,
                       "%s looks one value up in the seen set and records another: %s vs %s" % (short, sorted(lk)[:3], sorted(stv)[:3]),
                       f.where(looked[0].bb))
            # (d)
            for cc in f.calls():
                if cc.name == V + "Value::as_str" and cc.args and cc.bb in body:
                    folds = any(k.name.endswith(("::to_lowercase", "::to_uppercase", "::to_ascii_lowercase", "::to_ascii_uppercase"))
                                or "unicase" in k.name for k in f.calls() if k.bb in body)
                    if not folds:
                        continue
                    ctx.ob(rule + "key-is-folded-for-strings-only", "%s%s|as_str" % (tag, f.path), strview_is_guarded(f, cc),
                           "%s folds the case of the string view of a value that may be bytes (`as_str()` is Some for bytes "
                           "that are UTF-8) without `kind() == String`: bytes b'AB' and the string 'ab' share a key although "
                           "they are not `==`, so a value that is no duplicate is dropped" % short, f.where(cc.bb))
    return n



SORTERS = ("::sort_by", "::sort_unstable_by", "::sort_by_key", "::sort_by_cached_key", "::max_by", "::min_by",
           "::binary_search_by", "::dedup_by", "::is_sorted_by", "safe_sort")

def check_comparators(ctx, prog, tag, rule="C07.V2.comparator-is-total"):
    # ---- V2
    n2 = 0
    for f in prog.fns.values():
        if not (f.loc.f.endswith("filters.rs") or f.loc.f.endswith("filters/mod.rs") or f.path.endswith("utils::safe_sort")
                or f.loc.f.endswith("tests.rs")):
            continue
        for c in f.calls():
            if not any(c.name.endswith(s) for s in SORTERS):
                continue
            for a in c.args:
                for o in flow.origins(f, a):
                    if o.kind == "agg" and o.rv.get("closure"):
                        cl = prog.fns.get(norm_path(o.rv["closure"]))
                        if cl is None:
                            continue
                        n2 += 1
                        badc = []
                        scope = [cl] + prog.closures_of(cl.path)
                        # helpers the comparator delegates to (same crate), two levels deep
                        for _ in range(2):
                            for k in list(scope):
                                for cc in k.calls():
                                    g = prog.fns.get(cc.resolved or cc.path or "")
                                    if g is not None and g.crate in ("minijinja", "minijinja_contrib") and g not in scope \
                                            and (g.loc.f.endswith("filters.rs") or g.loc.f.endswith("filters/mod.rs")):
                                        scope.append(g)
                        for k in scope:
                            for cc in k.calls():
                                if cc.path == "core::cmp::PartialOrd::partial_cmp" and (cc.self_ty or {}).get("prim") in ("f64", "f32"):
                                    badc.append("partial_cmp on floats")
                                if cc.path in ("core::cmp::PartialOrd::lt", "core::cmp::PartialOrd::gt") and (
                                        (cc.self_ty or {}).get("prim") in ("f64", "f32")):
                                    badc.append("float compare")
                                if cc.name in ("core::option::Option::unwrap", "core::option::Option::expect"):
                                    src = flow.origins(k, cc.args[0])
                                    if any(oo.kind == "call" and oo.call.path == "core::cmp::PartialOrd::partial_cmp" for oo in src):
                                        badc.append("partial_cmp().unwrap()")
                            for bb, i, s in k.all_stmts():
                                rv = s.get("rv", {})
                                if rv.get("k") == "bin" and rv.get("ty") in ("f64", "f32") and rv["op"] in ("Lt", "Gt", "Le", "Ge"):
                                    badc.append("float compare")
                        # bytes that are valid UTF-8 have a string view as well (`as_str()` is Some for them) but
                        # they order as bytes against other bytes: a comparator that folds / compares through the
                        # string view must first establish that the value *is* a string
                        for k in scope:
                            for cc in k.calls():
                                if cc.name != V + "Value::as_str" or not cc.args:
                                    continue
                                if not strview_is_guarded(k, cc):
                                    badc.append("the string view of a value that may be bytes (as_str without kind() == String)")
                        # a verdict that is a constant on some inputs and a real comparison on others is not
                        # transitive (`_ => Ordering::Equal` for items whose key lookup failed: such an item is
                        # "equal" to two items that are not equal to each other); std's sort panics on that
                        rets = flow.origins(cl, 0)
                        consts = [r for r in rets if r.kind == "const" or (r.kind == "agg" and (r.rv.get("adt") or "").endswith("cmp::Ordering"))]
                        if consts and len(consts) < len(rets):
                            badc.append("a constant Ordering for some pairs of items")
                        # an element-wise comparison over `zip` stops at the shorter sequence: without a tie-break on
                        # the lengths a sequence is "equal" to everything it is a prefix of ([1] ~ [1,0] ~ [1,2] but
                        # [1,0] < [1,2]): not transitive, std's sort panics on it (seed C01-7)
                        for k in scope:
                            zips = [cc for cc in k.calls() if cc.name.endswith("Iterator::zip")]
                            if not zips:
                                continue
                            lengths = [cc for cc in k.calls() if cc.name.endswith("::len") or cc.name.endswith("Iterator::count")
                                       or cc.name.endswith("Iterator::cmp") or cc.name.endswith("Iterator::cmp_by")
                                       or cc.name.endswith("Iterator::partial_cmp") or cc.name.endswith("Ordering::then")
                                       or cc.name.endswith("Ordering::then_with")]
                            if not lengths:
                                badc.append("an element-wise comparison over zip() without a tie-break on the lengths")
                        ctx.ob(rule, "%s%s|%s" % (tag, f.path, c.name.split("::")[-1]), not badc,
                               "comparator passed to %s uses %s: not a total order (NaN) / may panic" % (c.name.split("::")[-1], badc),
                               f.where(c.bb))
    return n2


def check_float_order_vs_equality(ctx, prog, tag, rule="C07.V3.bitwise-float-order-only-for-unequal-floats", floor_name="C07.V3"):
    # ---- V3: the float order agrees with float equality.  `==` on values compares floats with IEEE `==`
    # (-0.0 == 0.0); an order computed from the bit pattern (f64::total_cmp, to_bits) tells them apart, so a
    # bit-pattern comparison may only be reached when the two floats are not `==`, and the `==` side is Equal.
    bitcmp = {"core::f64::<impl f64>::total_cmp", "core::f32::<impl f32>::total_cmp"}
    for f in prog.fns.values():
        if f.crate == "minijinja" and f.path.startswith("minijinja::value") and \
                any(c.name.endswith("::to_bits") for c in f.calls()) and \
                f.locals[0].get("adt") == "core::cmp::Ordering":
            bitcmp.add(f.path)
    n3 = 0
    for f in prog.fns.values():
        if f.crate != "minijinja" or f.path in bitcmp:
            continue
        for c in f.calls():
            if c.name not in bitcmp:
                continue
            n3 += 1
            guarded = False
            eq_side_equal = False
            args_src = [sorted(o.key() for o in flow.origins(f, a)) for a in c.args[:2]]
            for (sb, taken) in flow.guards(f, c.bb):
                cd = flow.cond_of(f, sb)
                if cd.kind != "bin" or cd.rv["op"] not in ("Eq", "Ne") or cd.rv.get("ty") not in ("f64", "f32"):
                    continue
                side = flow.bool_true_labels(taken)
                if side is None:
                    continue
                is_eq_true = (side != cd.neg) if cd.rv["op"] == "Eq" else (side == cd.neg)
                ops_src = [sorted(o.key() for o in flow.origins(f, cd.rv[x])) for x in ("a", "b")]
                if not is_eq_true and (ops_src == args_src or ops_src == args_src[::-1]):
                    guarded = True
                    eq_edges = cfg.bool_edges(f, sb, (cd.rv["op"] == "Eq") != cd.neg)
                    blocks = set()
                    for e in eq_edges:
                        blocks |= cfg.reach_from(f, e[1], avoid={c.bb})
                    for bb, i, st in f.all_stmts():
                        if bb in blocks and st["k"] == "assign" and st["place"] == {"l": 0}:
                            if st["rv"]["k"] == "use":
                                cst = st["rv"]["op"].get("c")
                                if cst is not None and ("Equal" in cst.get("d", "") or str(cst.get("int")) == "0"):
                                    eq_side_equal = True
                            elif st["rv"]["k"] == "agg" and st["rv"].get("variant") == "Equal":
                                eq_side_equal = True
            ctx.ob(rule, tag + f.path, guarded and eq_side_equal,
                   "%s orders two floats by their bit pattern (%s) without first returning Equal when they are "
                   "`==`: -0.0 and 0.0 are equal values but would be ordered, so `<`, sort, unique, groupby and "
                   "map lookup disagree with `==`" % (f.path, c.name.split("::")[-1]), f.where(c.bb))
    ctx.floor(floor_name + " bit-pattern float comparisons in the value order" + tag, n3, 1)


def run(ctx):
    ctx.explain("C07 (variant-level clauses): abstract interpretation of Value::eq / cmp / hash / kind, ops::coerce, "
                "as_f64 and the integer conversions over all 169 ordered pairs of ValueRepr variants (discriminants "
                "only), checking that equality never crosses kinds (cmp is kind-first), that possibly-equal variants "
                "hash through the same family, that cmp never unwraps a definite None, and that comparators passed "
                "to sort/min/max are total.  The laws over concrete values inside a pair and the algebra of "
                "sort/unique/groupby/batch/slice are value-level and NOT decided.")
    ctx.assume("objects: Object::custom_cmp / enumerate implementations of host objects are outside the analysis")
    for cname in ctx.configs():
        prog = ctx.program(cname)
        tag = "" if cname == "MAX" else "[%s]" % cname
        T = Tables(ctx, prog)
        vs = T.variants
        ctx.floor("C07 ValueRepr variants" + tag, len(vs), 13)
        eqf = prog.fn(EQ)
        cmpf = prog.fn(CMP)
        eq_true = {}
        cmp_panics = {}
        for a, b in itertools.product(vs, repeat=2):
            names = {"a": a, "b": b}
            rets, _ = absint.explore(prog, eqf, {"a": {T.discr[a]}, "b": {T.discr[b]}}, T.classify2,
                                     models=lambda c, av, keys, asg: T.models(c, av, keys, names))
            eq_true[(a, b)] = any(r is None or r == "?budget" or "1" in r for r in rets)
            rets2, watched = absint.explore(prog, cmpf, {"a": {T.discr[a]}, "b": {T.discr[b]}}, T.classify2,
                                            models=lambda c, av, keys, asg: T.models(c, av, keys, names),
                                            watch=("core::option::Option::unwrap", "core::option::Option::expect"))
            cmp_panics[(a, b)] = [w for w in watched if w[1] and w[1][0] is not None and set(w[1][0]) == {"None"}]
        ctx.count("C07 ordered variant pairs interpreted" + tag, len(eq_true))
        # ---- V1a
        cross = {}
        for (a, b), t in eq_true.items():
            if t and not (T.kind[a] & T.kind[b]):
                ka, kb = "/".join(sorted(T.kind[a])), "/".join(sorted(T.kind[b]))
                cross.setdefault(tuple(sorted((ka, kb))), []).append("%s==%s" % (a, b))
        kinds = sorted({"/".join(sorted(k)) for k in T.kind.values()})
        for ka, kb in itertools.combinations(kinds, 2):
            pairs = cross.get(tuple(sorted((ka, kb))), [])
            ctx.ob("C07.V1a.equality-never-crosses-kinds", "%s%s~%s" % (tag, ka, kb), not pairs,
                   "`==` can hold between kind %s and kind %s (%s) while the ordering puts every %s before/after every "
                   "%s: equal values that do not compare Equal (e.g. `true == 1` but `[true, 1]|sort` keeps both and "
                   "`{true: 'a'}[1]` is undefined)" % (ka, kb, ", ".join(sorted(pairs)), ka, kb), eqf.loc)
        # ---- V1b
        bad = {}
        for (a, b), t in eq_true.items():
            if t and a <= b and T.hashfam[a] != T.hashfam[b]:
                bad.setdefault((a, b), (sorted(T.hashfam[a]), sorted(T.hashfam[b])))
        seen_pairs = 0
        for (a, b), t in sorted(eq_true.items()):
            if t and a <= b:
                seen_pairs += 1
                ctx.ob("C07.V1b.possibly-equal-variants-hash-alike", "%s%s~%s" % (tag, a, b), (a, b) not in bad,
                       "`%s == %s` can be true but the two are hashed through %s and %s: equal values with different "
                       "hashes break map lookup / unique / `in`" % (a, b, sorted(T.hashfam[a]), sorted(T.hashfam[b])),
                       prog.fn(HASH).loc)
        ctx.floor("C07.V1b possibly-equal variant pairs" + tag, seen_pairs, 15)
        # ---- V1c
        for (a, b), ws in sorted(cmp_panics.items()):
            ctx.ob("C07.V1c.cmp-defined-for-every-pair", "%s%s~%s" % (tag, a, b), not ws,
                   "cmp(%s, %s) reaches %s on a value that is None for these variants: the comparison panics"
                   % (a, b, ", ".join(sorted({w[0].split("::")[-1] for w in ws}))), cmpf.loc)
        # ---- V1d
        # read through a private helper that takes the kind of a value for the order (`kind_rank(value)`)
        from .. import inline as _inl
        cmpv = _inl.view(prog, cmpf, keep=lambda t: not (t.startswith("minijinja::value::") and prog.has_fn(t) and prog.fn(t).nblocks <= 12
                                                          and not prog.fn(t).is_pub) or t == KINDFN)
        ks = [c for c in cmpv.calls() if c.name == KINDFN]
        oc = [c for c in cmpv.calls() if c.path == "core::cmp::Ord::cmp" and (c.self_ty or {}).get("adt") == KIND]
        ok = len(ks) >= 2 and len(oc) == 1
        if ok:
            # every other call of cmp is dominated by the switch that returns the kind ordering unless Equal
            first = oc[0]
            others = [c for c in cmpv.calls() if c.bb != first.bb and c.name != KINDFN and not cfg.dominates(cmpv, c.bb, first.bb)]
            ok = all(cfg.dominates(cmpv, first.bb, c.bb) for c in others)
            mv = None
            for bb in cmpf.reachable:
                if cmpf.term(bb)["k"] == "switch":
                    m = flow.matches_variants(prog, cmpf, bb, "core::cmp::Ordering")
                    if m is not None:
                        mv = m
        ctx.ob("C07.V1d.cmp-orders-by-kind-first", tag + CMP, ok,
               "Value::cmp must compare kinds first and return that result when it is not Equal", cmpf.loc)

        n2 = check_comparators(ctx, prog, tag)
        # ---- V6: the hashing family of numbers goes through `i64::try_from(value)`; its float arm must not accept 2^63
        # (saturating cast), or the float hashes like i64::MAX while being equal to the integer 2^63
        from .c08 import float_roundtrip_sites
        conv = [g for g in prog.fns.values() if g.crate == "minijinja" and g.path.endswith("for i64>::try_from") and "minijinja::value::Value" in g.path]
        for g, rb, guarded in float_roundtrip_sites(prog, conv):
            ctx.ob("C07.V6.integral-float-hashes-like-the-equal-integer", tag + g.path, guarded,
                   "i64::try_from(Value) accepts the float 2^63 through the saturating cast and yields i64::MAX: the float "
                   "is hashed as i64::MAX although it equals the integer 2^63, which is hashed through its float bits", g.where(rb))
        # ---- V5
        eqfns = [g for g in prog.fns.values() if g.crate == "minijinja" and (
            g.path.startswith("<minijinja::value::Value as core::cmp::") or "minijinja::value::Value as core::cmp::" in g.path)]
        ctx.floor("C07.V5 equality / ordering functions of Value" + tag, len(eqfns), 3)
        check_unknown_lengths(ctx, prog, eqfns, tag)
        # ---- V8 (= C08.N8): the mixed float / integer orderings that `cmp` falls back to are exact at the saturation
        # boundary, otherwise the order is not antisymmetric with == (2^127 vs i128::MAX)
        from .c08 import check_mixed_orderings
        check_mixed_orderings(ctx, prog, tag, rule="C07.V8.mixed-ordering-casts-the-float-only-below-saturation", floor_name="C07.V8")
        check_object_pairs(ctx, prog, tag)
        check_reverse_arms(ctx, prog, tag)
        check_map_order(ctx, prog, tag)
        # ---- V9 (= C08.N7): `==` goes through coerce (as_f64 must call an integer exact exactly when it is), the order
        # through the exact fallbacks; the two agree only if as_f64's exactness test is the guarded round trip
        from .c08 import check_exactness_of_integer_floats
        check_exactness_of_integer_floats(ctx, prog, tag, prefix="C07.V9")
        # ---- V7: membership agrees with equality.  `x in seq` is decided by the function the `In` instruction calls;
        # its searches over the members of a sequence / iterable (any / find / position / contains closures) must
        # return the result of `Value == Value` between the member and the needle - a specialised comparison
        # (`as_str() == Some(needle)`, a kind test, a hash probe) makes `in` disagree with `==` for the pairs the
        # specialisation conflates (a string and bytes with the same content).
        ev_ = prog.fns.get("minijinja::vm::Executor::eval_impl")
        memb = set()
        if ev_ is not None:
            sw_ = arms.enum_switches(prog, ev_, "minijinja::compiler::instructions::Instruction")
            regs_ = arms.arm_regions(prog, ev_, sw_[0][0], "minijinja::compiler::instructions::Instruction") if sw_ else {}
            for c in arms.calls_in(ev_, regs_.get("In", set())):
                if c.name.startswith("minijinja::value::ops::"):
                    memb.add(c.name)
        ctx.floor("C07.V7 membership functions called by the In instruction" + tag, len(memb), 1)
        SEARCH = ("::any", "::find", "::position", "::all", "::find_map", "::rposition")
        n7 = 0
        for mname in sorted(memb):
            mf = prog.fn(mname)
            for host in [mf] + prog.closures_of(mname):
                for c in host.calls():
                    if not (c.name.startswith("core::iter::traits::iterator::Iterator") and c.name.endswith(SEARCH)):
                        continue
                    for a in c.args[1:]:
                        for o in flow.origins(host, a):
                            if o.kind != "agg" or not o.rv.get("closure"):
                                continue
                            cl = prog.fns.get(norm_path(o.rv["closure"]))
                            if cl is None:
                                continue
                            n7 += 1
                            rets = flow.origins(cl, 0)
                            ok = bool(rets) and all(
                                r.kind == "call" and r.call.path in ("core::cmp::PartialEq::eq",) and
                                (r.call.self_ty or {}).get("adt") == "minijinja::value::Value" for r in rets)
                            ctx.ob("C07.V7.membership-is-decided-by-value-equality", "%s%s|%s" % (tag, mname.split("::")[-1], c.name.split("::")[-1]),
                                   ok, "the search over the container's members decides by %s, not by `Value == Value`: `x in seq` "
                                   "then disagrees with `==` on the members (e.g. a string and bytes with the same content)"
                                   % [repr(r) for r in rets], host.where(c.bb))
        ctx.floor("C07.V7 member searches" + tag, n7, 1)
        # ---- V4: descending order comes from the comparator, never from reversing a sorted sequence.  A stable sort
        # followed by `reverse()` also reverses the run of items that compare equal, so `sort(reverse=true)` would no
        # longer be a stable descending sort (and would disagree with the attribute form on ties).
        n4 = 0
        for f in prog.fns.values():
            if not (f.loc.f.endswith("filters.rs") or f.loc.f.endswith("filters/mod.rs")):
                continue
            sorts = [c for c in f.calls() if any(c.name.endswith(x) for x in SORTERS) and ("sort" in c.name.split("::")[-1])]
            if not sorts:
                continue
            n4 += 1

            def vec_roots(op):
                return {o.key() for o in flow.origins(f, op, through_calls=lambda k: 0 if k.name.endswith(
                    ("::deref_mut", "::deref", "::as_mut_slice", "::as_mut", "::as_slice", "::iter", "::iter_mut", "::into_iter")) else None)}
            sorted_roots = set()
            for c in sorts:
                sorted_roots |= vec_roots(c.args[0])
            for c in f.calls():
                last = c.name.split("::")[-1]
                if last in ("reverse", "rev") and c.args and (vec_roots(c.args[0]) & sorted_roots) and any(
                        cfg.can_reach(f, s_.bb, c.bb) for s_ in sorts):
                    ctx.ob("C07.V4.order-direction-comes-from-the-comparator", "%s%s|%s" % (tag, f.path, last), False,
                           "%s sorts a vector with a stable sort and then calls %s on it: items that compare equal end "
                           "up in reversed input order, so the descending sort is not stable" % (f.path.split("::")[-1], c.name),
                           f.where(c.bb))
        if prog.has_fn("minijinja::filters::builtins::sort"):
            ctx.floor("C07.V4 filters that sort" + tag, n4, 2)
        if prog.has_fn("minijinja::filters::builtins::sort"):
            ctx.floor("C07.V2 comparator closures" + tag, n2, 3)
        else:
            ctx.count("configs without the builtin filters")

        check_float_order_vs_equality(ctx, prog, tag)
        check_inline_padding(ctx, prog, tag)
        n12 = check_dedup(ctx, prog, tag)
        n14 = check_group_order(ctx, prog, tag)
        n15 = check_defaulted_lengths(ctx, prog, tag)
        n16 = check_stable_sorts(ctx, prog, tag)
        ctx.count("C07.V16 sort calls of the engine" + tag, n16)
        n17 = check_comparator_orientation(ctx, prog, tag)
        ctx.floor("C07.V17 inner comparisons with an orientation" + tag, n17, 8)
        ctx.count("C07.V15 defaulted lengths" + tag, n15)
        if prog.has_fn("minijinja::filters::builtins::groupby"):
            ctx.floor("C07.V14 grouping comparisons after a sort" + tag, n14, 1)
        n13 = check_string_reprs(ctx, prog, tag, "C07.V13.string-representations-are-handled-alike",
                                 lambda f: not f.loc.f.endswith(("value/deserialize.rs", "value/serialize.rs")))
        ctx.floor("C07.V13 switches on the value representation" + tag, n13, 40)
        if prog.has_fn("minijinja::filters::builtins::unique"):
            ctx.floor("C07.V12 de-duplicating loops" + tag, n12, 1)
        if cname == "MAX":
            ctx.sample({"kind table": {k: sorted(v) for k, v in T.kind.items()},
                        "coerce may-Some pairs": sorted("%s,%s" % k for k, v in T.coerce.items() if "Some" in v or "?" in v)[:60],
                        "eq may be true": sorted("%s,%s" % k for k, v in eq_true.items() if v)})
    # positive control for the zero-count rule V5
    sub5 = ctx.fresh()
    cprog = ctx.controls
    check_unknown_lengths(sub5, cprog, [cprog.fn("mjsa_controls::c07::differ")], "control:")
    ctx.control("C07.V5", any(not o[2] for o in sub5.obligations))
    sub16 = ctx.fresh()
    check_stable_sorts(sub16, cprog, "control:", crates=("mjsa_controls",))
    ctx.control("C07.V16", any(not o[2] for o in sub16.obligations))
