"""C01.P15 — a search loop advances.  `while let Some(off) = rest.find(needle) { ..; rest = &rest[off + needle.len()..] }`
never terminates for an empty needle (every position matches at offset 0); what it counts then overflows (a panic
with overflow checks after 2^31 iterations).  For every `str::find` / `rfind` whose haystack is carried around a loop
(re-sliced from itself inside the loop) the needle is a non-empty constant (a char or a non-empty literal) or a
dominating test excluded the empty needle.  (found on the unchanged tree: `'abc'.count('')`, fix 933beea.)"""
from .. import cfg, flow
from ..facts import const_int

FIND = ("core::str::<impl str>::find", "core::str::<impl str>::rfind", "core::str::<impl str>::match_indices")


def check_search_loops(ctx, prog, tag=""):
    n = 0
    for f in sorted(prog.fns.values(), key=lambda x: x.path):
        if f.crate not in ("minijinja", "minijinja_contrib"):
            continue
        loops = cfg.natural_loops(f)
        if not loops:
            continue
        for c in f.calls():
            if c.name not in FIND or len(c.args) < 2:
                continue
            inl = [(h, b) for h, b in loops if c.bb in b]
            if not inl:
                continue
            h, body = min(inl, key=lambda x: len(x[1]))
            hay = flow.origins(f, c.args[0])
            carried = any(o.kind == "call" and o.bb in body and ("::index" in o.call.name or "split_at" in o.call.name
                                                                 or "get" in o.call.name.split("::")[-1]) for o in hay)
            if not carried:
                continue
            n += 1
            needle = flow.origins(f, c.args[1])
            const_ok = bool(needle) and all(
                o.kind == "const" and (o.const.get("ty") == "char" or (o.const.get("str") not in (None, ""))) for o in needle)
            # a constant set of characters: every match is a character, never the empty string
            const_ok = const_ok or bool(flow.const_char_set(f, c.args[1]))
            guard = None
            keys = {o.key() for o in needle}
            for (sb, taken) in flow.guards(f, h):
                cd = flow.cond_of(f, sb)
                side = flow.bool_true_labels(taken)
                if side is None:
                    continue
                truth = side != cd.neg
                if cd.kind == "call" and cd.call.name.endswith("::is_empty") and not truth and cd.call.args and (
                        {o.key() for o in flow.origins(f, cd.call.args[0])} & keys):
                    guard = "!is_empty()"
                if cd.kind == "bin" and cd.rv["op"] in ("Eq", "Ne", "Gt", "Lt", "Ge", "Le"):
                    for x, y in ((cd.rv["a"], cd.rv["b"]), (cd.rv["b"], cd.rv["a"])):
                        if "c" in x or "c" not in y:
                            continue
                        k0 = const_int(y)
                        is_len = any(o.kind == "call" and o.call.name.endswith("::len") and o.call.args and (
                            {q.key() for q in flow.origins(f, o.call.args[0])} & keys) for o in flow.origins(f, x))
                        if not is_len or k0 is None:
                            continue
                        op = cd.rv["op"]
                        swapped = x is cd.rv["b"]
                        if swapped:
                            op = {"Gt": "Lt", "Lt": "Gt", "Ge": "Le", "Le": "Ge"}.get(op, op)
                        if (op == "Eq" and k0 == 0 and not truth) or (op == "Ne" and k0 == 0 and truth) or \
                                (op == "Gt" and k0 >= 0 and truth) or (op == "Ge" and k0 >= 1 and truth) or \
                                (op == "Lt" and k0 <= 1 and not truth) or (op == "Le" and k0 <= 0 and not truth):
                            guard = "len() compared with %d" % k0
            ctx.ob("C01.P15.search-loop-advances", "%s%s|%s" % (tag, f.path, c.name.split("::")[-1]), const_ok or guard is not None,
                   "the loop re-slices its haystack after every match of a needle that may be empty: an empty needle matches at "
                   "offset 0 forever (the loop never ends; its counter overflows after 2^31 rounds)", f.where(c.bb))
    ctx.count("C01.P15 loop-carried searches" + tag, n)
