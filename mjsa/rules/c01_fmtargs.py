"""C01.P14 — a width or precision handed to Rust's formatter at run time fits what the formatter accepts.

`format!("{:.prec$}", x)` / `{:width$}` / `{:.*}` pass the number through `core::fmt::rt::Argument::from_usize`; the
formatting machinery panics ("Formatting argument out of range") when it exceeds `u16::MAX`.  For every such site in
the engine:
  * a constant operand is fine;
  * otherwise the operand is sliced backwards (projection-insensitive, through library combinators and closures, and
    through parameters to the call sites): it may depend only on constants, on struct fields, and on reviewed
    program calls (the decimal exponent of a float);
  * every producer of each such field (all aggregates / assignments in the program) is again sliced backwards: every
    integer-returning program call that feeds it must be a *bounded parse* - the callee compares against one of its
    parameters on the way to an `Err`, and the call passes a constant for that parameter - with
    constant + slack <= u16::MAX, where slack is the largest |negative constant| a summand of the operand is compared
    with on the way to the site (`exp >= -4` in the general format: up to 3 more digits are requested).
(found as a defect of the unchanged tree: `'%.70000f'|format(1.5)` panicked; fix e8b9716.)
"""
import re

from .. import cfg, flow, query
from ..facts import op_place, const_int

LIMIT = 65535
RULE = "C01.P14.dynamic-format-argument-fits-the-formatter"
REVIEWED_CALLS = {
    "minijinja::formatting::FormatSpec::mantissa_and_exp":
        "decimal exponent of a finite float: |exp| <= 324, independent of the template's numbers",
}
INT_RE = re.compile(r"\b(usize|u64|u32|u16|i64|i32|isize|u128|i128)\b")


def _is_from_usize(c):
    return c.name.endswith("Argument::from_usize") or c.name.endswith("Argument<'_>::from_usize")


def _slice(prog, f, op, depth=3, seen=None):
    """(fields, calls, unknown) the operand depends on; parameters are followed to the call sites"""
    if seen is None:
        seen = set()
    fields, calls, unknown = set(), [], []
    cs, ls = flow.backward_calls(prog, f, op)
    calls += cs
    for g, o in ls:
        if o.kind == "arg":
            names = [p for p in o.proj if not p.isdigit() and not p.startswith("as ") and p not in ("ptr", "pointer")]
            if names:
                fields.add(names[-1])
                continue
            if g.kind == "closure":
                continue            # the closure's own parameter: the receiver of the combinator is sliced as well
            key = (g.path, o.arg)
            if key in seen or depth <= 0:
                continue
            seen.add(key)
            sites = prog.callers().get(g.path, [])
            if not sites:
                unknown.append("%s: parameter %d has no visible caller" % (g.path.split("::")[-1], o.arg))
            for c in sites:
                if len(c.args) < o.arg:
                    continue
                a = c.args[o.arg - 1]
                if "c" in a:
                    continue
                f2, c2, u2 = _slice(prog, c.fn, a, depth - 1, seen)
                fields |= f2
                calls += c2
                unknown += u2
        elif o.kind == "agg" and o.rv.get("variant") in ("None",):
            continue
        elif o.kind in ("un", "cast", "discr"):
            continue
        else:
            unknown.append("%s: %r" % (g.path.split("::")[-1], o))
    return fields, calls, unknown


def _bounded_parse(prog, c):
    """for a call of a program function: the constant it passes for a parameter the callee compares against on the
    way to an Err, else None"""
    g = prog.fn(c.name)
    params = set()
    for sb in sorted(g.reachable):
        t = g.term(sb)
        if t["k"] != "switch":
            continue
        cd = flow.cond_of(g, sb)
        if cd.kind != "bin" or cd.rv["op"] not in ("Gt", "Ge", "Lt", "Le"):
            continue
        for side in ("a", "b"):
            x = cd.rv[side]
            if "c" in x:
                continue
            for o in flow.origins(g, x):
                if o.kind == "arg" and not o.proj:
                    params.add(o.arg)
    best = None
    for k in sorted(params):
        if k - 1 < len(c.args) and "c" in c.args[k - 1]:
            v = const_int(c.args[k - 1])
            if v is not None:
                best = v if best is None else min(best, v)
    return best


def _slack(prog, f, bb):
    """largest |negative constant| a value is compared with among the dominating guards of the site"""
    s = 0
    for (sb, taken) in flow.guards(f, bb):
        cd = flow.cond_of(f, sb)
        if cd.kind == "bin" and cd.rv["op"] in ("Gt", "Ge", "Lt", "Le"):
            for side in ("a", "b"):
                v = const_int(cd.rv[side]) if "c" in cd.rv[side] else None
                if v is not None and v < 0:
                    s = max(s, -v)
    return s


def check_format_args(ctx, prog, tag):
    sites = [(f, c) for f in prog.fns.values() for c in f.calls() if _is_from_usize(c)]
    if prog.has_fn("minijinja::formatting::parse_number"):
        ctx.floor("C01.P14 run-time format width/precision sites" + tag, len(sites), 5)
    fields_all = {}
    slack = 0
    nconst = 0
    for f, c in sites:
        os_ = flow.origins(f, c.args[0]) if c.args else []
        if os_ and all(o.kind == "const" for o in os_):
            nconst += 1
            continue
        inst = "%s%s" % (tag, f.path.split("::")[-1])
        fields, calls, unknown = _slice(prog, f, c.args[0])
        bad = list(unknown)
        for k in calls:
            if k.name in REVIEWED_CALLS:
                continue
            rt = prog.fn(k.name).locals[0].get("s", "")
            if INT_RE.search(rt):
                bad.append("depends on %s" % k.name.split("::")[-1])
        arith = any(o.kind == "bin" for o in os_)
        if arith:
            sl = _slack(prog, f, c.bb)
            if sl == 0:
                bad.append("arithmetic on the number without a bound on the other summand")
            slack = max(slack, sl)
        for fld in fields:
            fields_all.setdefault(fld, []).append(f.where(c.bb))
        ctx.ob(RULE, inst + "|operand", not bad and bool(fields or calls),
               "the number handed to the formatter at run time is not derived from bounded fields only: %s" % "; ".join(bad[:4]),
               f.where(c.bb))
    ctx.count("C01.P14 constant operands" + tag, nconst)
    nprod = 0
    for fld, wheres in sorted(fields_all.items()):
        for (pf, pbb, adt, op, call) in flow.field_producers(prog, fld):
            if adt is not None and "minijinja::" not in adt:
                continue
            nprod += 1
            inst = "%s%s|%s" % (tag, pf.path.split("::")[-1], fld)
            if op is None:
                ctx.ob(RULE, inst, False, "`%s` is assigned a computed value (%s)" % (fld, call.name if call else "?"), pf.where(pbb))
                continue
            if "c" in op:
                continue
            calls, leaves = flow.backward_calls(prog, pf, op)
            bad = []
            nparse = 0
            for k in calls:
                rt = prog.fn(k.name).locals[0].get("s", "")
                if not INT_RE.search(rt):
                    continue
                b = _bounded_parse(prog, k)
                nparse += 1
                if b is None:
                    bad.append("%s does not bound what it returns by a constant passed at this call" % k.name.split("::")[-1])
                elif b + slack > LIMIT:
                    bad.append("%s is bounded by %d here; with up to %d more digits requested at the site the formatter "
                               "is asked for more than u16::MAX" % (k.name.split("::")[-1], b, slack))
            for g, o in leaves:
                if o.kind == "agg" and o.rv.get("variant") == "None":
                    continue
                if o.kind == "arg" and g.kind == "closure":
                    continue
                if o.kind == "arg":
                    bad.append("%s: parameter %d" % (g.path.split("::")[-1], o.arg))
                elif o.kind not in ("un", "cast", "discr", "agg"):
                    bad.append("%s: %r" % (g.path.split("::")[-1], o))
            ctx.ob(RULE, inst, not bad,
                   "the field `%s` reaches `format!(\"{:.N$}\")` (%s); the formatter panics above u16::MAX, and here the "
                   "field is not limited accordingly: %s" % (fld, wheres[0], "; ".join(bad[:4])), pf.where(pbb))
    if fields_all:
        ctx.floor("C01.P14 producers of the fields that reach the formatter" + tag, nprod, 2)
