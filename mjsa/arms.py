"""Switch-arm summaries: for a `match` on an enum, the private region of each variant's arm and what happens in it."""
from . import cfg, flow
from .facts import CheckerBroken


def enum_switches(prog, fn, adt, on_local=None):
    """switch blocks of fn that discriminate on enum `adt` (optionally: only when the matched place is rooted at the
    given local); returns [(bb, Cond)] sorted by number of arms, largest first"""
    out = []
    for bb in sorted(fn.reachable):
        t = fn.term(bb)
        if t["k"] != "switch":
            continue
        cd = flow.cond_of(fn, bb)
        if cd.kind == "discr" and cd.adt == adt:
            if on_local is not None and cd.place["l"] != on_local:
                continue
            out.append((bb, cd))
    out.sort(key=lambda x: -len(fn.term(x[0])["arms"]))
    return out


def variant_targets(prog, fn, bb, adt):
    """{variant name: target block}; variants not listed go to `otherwise`"""
    a = prog.adt(adt)
    by_discr = {v["discr"]: v["name"] for v in a["variants"]}
    t = fn.term(bb)
    out = {}
    listed = set()
    for v, x in t["arms"]:
        nm = by_discr.get(v)
        if nm is None:
            raise CheckerBroken("switch value %s is not a discriminant of %s" % (v, adt))
        out[nm] = x
        listed.add(nm)
    oth = t["otherwise"]
    # `otherwise` is real only if some variant is unlisted (else it is the unreachable block)
    for v in a["variants"]:
        if v["name"] not in listed:
            out[v["name"]] = oth
    return out


def arm_regions(prog, fn, bb, adt):
    """{variant: set(blocks private to the arm)}; arms sharing a target share the region"""
    tg = variant_targets(prog, fn, bb, adt)
    cache = {}
    out = {}
    for v, x in tg.items():
        if x not in cache:
            cache[x] = cfg.region_dominated_by(fn, x)
        out[v] = cache[x]
    return out


def calls_in(fn, region):
    return [c for c in fn.calls() if c.bb in region]


def aggregates_in(fn, region, adt=None):
    out = []
    for bb in sorted(region):
        for i, s in enumerate(fn.stmts(bb)):
            rv = s.get("rv")
            if rv and rv["k"] == "agg" and rv.get("agg") == "adt" and (adt is None or rv.get("adt") == adt):
                out.append((bb, i, rv))
    return out
