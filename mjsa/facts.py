"""Extraction (cargo + mjfacts driver) and the in-memory program model.

Everything a rule sees comes from here: MIR bodies of /repo's *current working tree*, type-checked by
rustc nightly, with resolved callees.  Nothing is executed.
"""
import fcntl
import hashlib
import json
import os
import shutil
import subprocess
import sys
import tempfile
import time

VERIF = os.path.dirname(os.path.dirname(os.path.abspath(__file__)))
CACHE = os.path.join(VERIF, ".cache")
DRIVER_DIR = os.path.join(VERIF, "driver")
DRIVER_BIN = os.path.join(DRIVER_DIR, "target", "debug", "mjfacts")
CRATES = "minijinja,minijinja_contrib,minijinja_autoreload,mjsa_controls"

MJ_MAX = ["json", "urlencode", "fuel", "loop_controls", "custom_syntax", "unstable_machinery",
          "deserialization", "unicode", "preserve_order"]
CONTRIB_ALL = ["pycompat", "datetime", "timezone", "rand", "html_entities", "wordcount", "wordwrap",
               "unicode_wordwrap"]

# configuration id -> cargo arguments (relative to the repo root)
CONFIGS = {
    # everything that builds offline, IndexMap value maps
    "MAX": ["-p", "minijinja", "-p", "minijinja-contrib", "-p", "minijinja-autoreload", "--features",
            ",".join(["minijinja/" + f for f in MJ_MAX] + ["minijinja-contrib/" + f for f in CONTRIB_ALL]
                     + ["minijinja-autoreload/watch-fs"])],
    # the default feature set of the core crate
    "DEF": ["-p", "minijinja"],
    # the smallest engine
    "MIN": ["-p", "minijinja", "--no-default-features"],
    # the macro engine without template composition (a size-reduced build some hosts use): cfg-gated twins of the
    # depth accounting (`any(macros, multi_template)` vs `multi_template`) only differ here
    "MAC": ["-p", "minijinja", "--no-default-features", "--features", "macros"],
    # MAX without preserve_order: BTreeMap value maps
    "ORD": ["-p", "minijinja", "--features", ",".join(f for f in MJ_MAX if f != "preserve_order")],
}


class CheckerBroken(Exception):
    """The checker cannot decide (missing anchor, count below floor, extraction failed): exit 2."""


def nightly_sysroot():
    return subprocess.check_output(["rustc", "+nightly", "--print", "sysroot"], text=True).strip()


def tree_key(repo):
    h = hashlib.sha256()
    roots = ["minijinja", "minijinja-contrib", "minijinja-autoreload"]
    files = [os.path.join(repo, "Cargo.toml"), os.path.join(repo, "Cargo.lock")]
    for r in roots:
        for dp, dn, fn in os.walk(os.path.join(repo, r)):
            dn[:] = sorted(d for d in dn if d not in ("target", "tests", "benches", "examples", ".git"))
            for f in sorted(fn):
                if f.endswith(".rs") or f == "Cargo.toml":
                    files.append(os.path.join(dp, f))
    # the driver's own source is part of the key: a changed extractor must not reuse old facts
    for dp, dn, fn in os.walk(os.path.join(DRIVER_DIR, "src")):
        for f in sorted(fn):
            files.append(os.path.join(dp, f))
    for f in sorted(files):
        h.update(os.path.relpath(f, repo).encode())
        try:
            with open(f, "rb") as fh:
                h.update(fh.read())
        except OSError:
            h.update(b"<missing>")
    return h.hexdigest()[:20]


def build_driver(log=sys.stderr):
    src_m = 0
    for dp, dn, fn in os.walk(os.path.join(DRIVER_DIR, "src")):
        for f in fn:
            src_m = max(src_m, os.path.getmtime(os.path.join(dp, f)))
    if os.path.exists(DRIVER_BIN) and os.path.getmtime(DRIVER_BIN) >= src_m:
        return
    env = dict(os.environ, CARGO_NET_OFFLINE="true")
    r = subprocess.run(["cargo", "build", "--offline"], cwd=DRIVER_DIR, env=env, stdout=subprocess.PIPE,
                       stderr=subprocess.STDOUT, text=True)
    if r.returncode != 0 or not os.path.exists(DRIVER_BIN):
        log.write(r.stdout)
        raise CheckerBroken("cannot build the mjfacts driver")


def _prune_cache(keep):
    try:
        ents = [os.path.join(CACHE, e) for e in os.listdir(CACHE) if len(e) == 20]
    except OSError:
        return
    ents.sort(key=lambda p: os.path.getmtime(p), reverse=True)
    for p in ents[6:]:
        if os.path.basename(p) != keep:
            shutil.rmtree(p, ignore_errors=True)


def extract(repo, config="MAX", log=sys.stderr):
    """Return the directory holding <crate>.json for (repo tree, config); run cargo if not cached."""
    repo = os.path.abspath(repo)
    key = tree_key(repo)
    out = os.path.join(CACHE, key, config)
    stamp = os.path.join(out, "OK")
    os.makedirs(CACHE, exist_ok=True)
    with open(os.path.join(CACHE, "lock"), "w") as lk:
        fcntl.flock(lk, fcntl.LOCK_EX)
        if os.path.exists(stamp):
            os.utime(os.path.join(CACHE, key))
            return out
        build_driver(log)
        if os.path.exists(out):
            shutil.rmtree(out)
        os.makedirs(out)
        tgt = tempfile.mkdtemp(prefix="mjfacts-tgt-", dir=CACHE)
        try:
            env = dict(os.environ)
            env.update({
                "LD_LIBRARY_PATH": os.path.join(nightly_sysroot(), "lib"),
                "RUSTFLAGS": "-Zmir-opt-level=0 -Awarnings",
                "RUSTC_WORKSPACE_WRAPPER": DRIVER_BIN,
                "MJFACTS_CRATES": CRATES,
                "MJFACTS_OUT": out,
                "CARGO_TARGET_DIR": tgt,
                "CARGO_NET_OFFLINE": "true",
                "CARGO_INCREMENTAL": "0",
            })
            env.pop("RUSTC_WRAPPER", None)
            t0 = time.time()
            cmd = ["cargo", "+nightly", "check", "--offline", "--lib"] + CONFIGS[config]
            r = subprocess.run(cmd, cwd=repo, env=env, stdout=subprocess.PIPE, stderr=subprocess.STDOUT, text=True)
            if r.returncode != 0:
                log.write(r.stdout[-6000:])
                raise CheckerBroken("extraction failed: `%s` in %s does not build" % (" ".join(cmd), repo))
            if not os.path.exists(os.path.join(out, "minijinja.json")):
                raise CheckerBroken("extraction produced no fact file (driver skipped?)")
            with open(stamp, "w") as f:
                f.write("%s %.1fs\n" % (" ".join(cmd), time.time() - t0))
        finally:
            shutil.rmtree(tgt, ignore_errors=True)
        _prune_cache(key)
    return out


def extract_controls(log=sys.stderr):
    """Facts of the positive-control crate /verif/controls (keyed by its own sources)."""
    cdir = os.path.join(VERIF, "controls")
    h = hashlib.sha256()
    for dp, dn, fn in os.walk(cdir):
        dn[:] = sorted(d for d in dn if d != "target")
        for f in sorted(fn):
            if f.endswith(".rs") or f == "Cargo.toml":
                h.update(open(os.path.join(dp, f), "rb").read())
    for dp, dn, fn in os.walk(os.path.join(DRIVER_DIR, "src")):
        for f in sorted(fn):
            h.update(open(os.path.join(dp, f), "rb").read())
    key = "ctl-" + h.hexdigest()[:16]
    out = os.path.join(CACHE, key)
    stamp = os.path.join(out, "OK")
    os.makedirs(CACHE, exist_ok=True)
    with open(os.path.join(CACHE, "lock"), "w") as lk:
        fcntl.flock(lk, fcntl.LOCK_EX)
        if os.path.exists(stamp):
            return out
        build_driver(log)
        for e in os.listdir(CACHE):
            if e.startswith("ctl-"):
                shutil.rmtree(os.path.join(CACHE, e), ignore_errors=True)
        os.makedirs(out)
        tgt = tempfile.mkdtemp(prefix="mjfacts-tgt-", dir=CACHE)
        try:
            env = dict(os.environ)
            env.update({
                "LD_LIBRARY_PATH": os.path.join(nightly_sysroot(), "lib"),
                "RUSTFLAGS": "-Zmir-opt-level=0 -Awarnings",
                "RUSTC_WORKSPACE_WRAPPER": DRIVER_BIN,
                "MJFACTS_CRATES": CRATES,
                "MJFACTS_OUT": out,
                "CARGO_TARGET_DIR": tgt,
                "CARGO_NET_OFFLINE": "true",
                "CARGO_INCREMENTAL": "0",
            })
            r = subprocess.run(["cargo", "+nightly", "check", "--offline", "--lib"], cwd=cdir, env=env,
                               stdout=subprocess.PIPE, stderr=subprocess.STDOUT, text=True)
            if r.returncode != 0 or not os.path.exists(os.path.join(out, "mjsa_controls.json")):
                log.write(r.stdout[-4000:])
                raise CheckerBroken("controls crate does not build / produced no facts")
            open(stamp, "w").write("ok\n")
        finally:
            shutil.rmtree(tgt, ignore_errors=True)
    return out


# ----------------------------------------------------------------------------------------------
# program model


def norm_path(p):
    """Drop turbofish generic segments (`::<'a, T>`) so keys are stable; keep `::<impl ..>` segments."""
    out = []
    i = 0
    n = len(p)
    while i < n:
        if p.startswith("::<", i) and not p.startswith("::<impl", i):
            depth = 0
            j = i + 2
            while j < n:
                c = p[j]
                if c == "<":
                    depth += 1
                elif c == ">" and p[j - 1] != "-":
                    depth -= 1
                    if depth == 0:
                        break
                j += 1
            i = j + 1
            continue
        out.append(p[i])
        i += 1
    return "".join(out)


class Loc:
    __slots__ = ("f", "l", "c", "m")

    def __init__(self, raw):
        self.f = raw.get("f", "?")
        self.l = raw.get("l", 0)
        self.c = raw.get("c", 0)
        self.m = raw.get("m", [])

    def __str__(self):
        return "%s:%d" % (self.f, self.l)


class Call:
    """A call terminator."""
    __slots__ = ("fn", "bb", "raw", "callee", "path", "resolved", "args", "dest", "target", "loc", "virtual",
                 "indirect", "trait", "self_ty", "full", "krate")

    def __init__(self, fn, bb, raw, loc):
        self.fn = fn
        self.bb = bb
        self.raw = raw
        c = raw["callee"]
        self.callee = c
        self.indirect = "indirect" in c
        self.path = norm_path(c["path"]) if "path" in c else None
        self.resolved = norm_path(c["resolved"]) if "resolved" in c else None
        self.virtual = bool(c.get("virtual"))
        self.trait = c.get("trait")
        self.self_ty = c.get("self_ty")
        self.full = c.get("full", "")
        self.krate = c.get("krate")
        self.args = raw["args"]
        self.dest = raw.get("dest")
        self.target = raw.get("t")
        self.loc = Loc(loc)

    @property
    def name(self):
        """best name of the callee: the resolved instance when rustc could resolve it"""
        return self.resolved or self.path or "<indirect>"

    def is_(self, *names):
        return self.resolved in names or self.path in names

    def __repr__(self):
        return "Call(%s @ %s bb%d)" % (self.name, self.loc, self.bb)


def op_place(op):
    """place of a copy/move operand, else None"""
    if "cp" in op:
        return op["cp"]
    if "mv" in op:
        return op["mv"]
    return None


def op_local(op):
    """local of a copy/move operand with NO projection, else None"""
    p = op_place(op)
    if p is not None and "p" not in p:
        return p["l"]
    return None


def op_base_local(op):
    p = op_place(op)
    return None if p is None else p["l"]


def op_const(op):
    return op.get("c")


def const_int(op):
    c = op.get("c")
    if c is not None and "int" in c:
        return int(c["int"])
    return None


class Fn:
    def __init__(self, prog, raw, crate):
        self.prog = prog
        self.raw = raw
        self.crate = crate
        self.path = norm_path(raw["path"])
        self.kind = raw["kind"]
        self.loc = Loc(raw["loc"])
        self.blocks = raw["blocks"]
        self.locals = raw["locals"]
        self.argc = raw["argc"]
        self.nblocks = len(self.blocks)
        self._succ = None
        self._pred = None
        self._dom = None
        self._pdom = None
        self._calls = None
        self._reach = None
        self.name = raw.get("name")
        self.self_ty = raw.get("self_ty")
        self.trait = raw.get("trait")
        self.root = norm_path(raw["root"]) if "root" in raw else None
        self.parent = norm_path(raw["parent"]) if "parent" in raw else None
        self.is_pub = raw.get("pub", False)

    def __repr__(self):
        return "Fn(%s)" % self.path

    # -- CFG (normal edges only: unwind edges are not part of the facts) ------------------
    def term(self, bb):
        return self.blocks[bb]["t"]

    def stmts(self, bb):
        return self.blocks[bb]["s"]

    def tloc(self, bb):
        return Loc(self.blocks[bb]["tl"])

    @property
    def succ(self):
        if self._succ is None:
            s = []
            for b in self.blocks:
                t = b["t"]
                k = t["k"]
                if k in ("goto", "drop", "assert"):
                    s.append([t["t"]])
                elif k == "call":
                    s.append([t["t"]] if "t" in t else [])
                elif k == "switch":
                    tg = []
                    for _, x in t["arms"]:
                        if x not in tg:
                            tg.append(x)
                    if t["otherwise"] not in tg:
                        tg.append(t["otherwise"])
                    s.append(tg)
                else:
                    s.append([])
            self._succ = s
        return self._succ

    @property
    def pred(self):
        if self._pred is None:
            p = [[] for _ in self.blocks]
            for i, ss in enumerate(self.succ):
                for x in ss:
                    p[x].append(i)
            self._pred = p
        return self._pred

    @property
    def reachable(self):
        if self._reach is None:
            seen = {0}
            st = [0]
            while st:
                b = st.pop()
                for x in self.succ[b]:
                    if x not in seen:
                        seen.add(x)
                        st.append(x)
            self._reach = seen
        return self._reach

    def returns(self):
        return [i for i in self.reachable if self.blocks[i]["t"]["k"] == "return"]

    def calls(self):
        if self._calls is None:
            cs = []
            for i, b in enumerate(self.blocks):
                if b["t"]["k"] == "call" and i in self.reachable:
                    cs.append(Call(self, i, b["t"], b["tl"]))
            self._calls = cs
        return self._calls

    def calls_to(self, *names):
        return [c for c in self.calls() if c.is_(*names)]

    def local_ty(self, l):
        return self.locals[l]

    def local_adt(self, l):
        return self.locals[l].get("adt")

    def local_name(self, l):
        for n in self.raw.get("names", []):
            p = n["place"]
            if p["l"] == l and "p" not in p:
                return n["name"]
        return None

    def named_local(self, name):
        """locals bound to a user variable of that name (debug info)"""
        return [n["place"] for n in self.raw.get("names", []) if n["name"] == name]

    def all_stmts(self):
        for i in sorted(self.reachable):
            for j, s in enumerate(self.blocks[i]["s"]):
                yield i, j, s

    def where(self, bb):
        return "%s (%s)" % (self.path, self.tloc(bb))


class Program:
    def __init__(self, facts_dir, crates=("minijinja", "minijinja_contrib", "minijinja_autoreload")):
        self.dir = facts_dir
        self.fns = {}
        self.adts = {}
        self.impls = []
        self.statics = []
        self.consts = {}
        self.crates = []
        for c in crates:
            p = os.path.join(facts_dir, c + ".json")
            if not os.path.exists(p):
                continue
            with open(p) as f:
                raw = json.load(f)
            self.crates.append(c)
            for fr in raw["functions"]:
                fn = Fn(self, fr, c)
                k = fn.path
                n = 2
                while k in self.fns:
                    k = "%s#%d" % (fn.path, n)
                    n += 1
                fn.key = k
                self.fns[k] = fn
            for a in raw["adts"]:
                self.adts[norm_path(a["path"])] = a
            for i in raw["impls"]:
                i["crate"] = c
                self.impls.append(i)
            for s in raw["statics"]:
                s["crate"] = c
                self.statics.append(s)
            for k in raw["consts"]:
                self.consts[norm_path(k["path"])] = k
        if "minijinja" not in self.crates and "mjsa_controls" not in self.crates:
            raise CheckerBroken("no facts for crate minijinja in %s" % facts_dir)
        self._callers = None

    def fn(self, path):
        f = self.fns.get(path)
        if f is None:
            raise CheckerBroken("missing anchor: function %s" % path)
        return f

    def has_fn(self, path):
        return path in self.fns

    def view(self, path, keep=(), **kw):
        """the function read through its crate-private helpers (inline.view); `keep`: callees that stay calls"""
        from . import inline
        return inline.view(self, self.fn(path), keep=keep, **kw)

    def adt(self, path):
        a = self.adts.get(path)
        if a is None:
            raise CheckerBroken("missing anchor: type %s" % path)
        return a

    def variants(self, path):
        return [v["name"] for v in self.adt(path)["variants"]]

    def const_val(self, path):
        k = self.consts.get(path)
        if k is None or "val" not in k:
            raise CheckerBroken("missing anchor: constant %s" % path)
        return int(k["val"])

    def closures_of(self, root_path):
        return [f for f in self.fns.values() if f.root == root_path]

    def fns_matching(self, pred):
        return [f for f in self.fns.values() if pred(f)]

    def callers(self):
        """callee name -> list of Call (resolved or declared path)"""
        if self._callers is None:
            m = {}
            for f in self.fns.values():
                for c in f.calls():
                    for nm in {c.path, c.resolved}:
                        if nm:
                            m.setdefault(nm, []).append(c)
            self._callers = m
        return self._callers

    def calls_of(self, *names):
        out = []
        seen = set()
        cm = self.callers()
        for n in names:
            for c in cm.get(n, []):
                if id(c) not in seen:
                    seen.add(id(c))
                    out.append(c)
        return out
