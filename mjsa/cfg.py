"""CFG utilities over Fn: dominators, post-dominators, reachability, loops, regions."""


def _idom_sets(n, entry_nodes, succ, pred, nodes):
    """iterative dominator sets restricted to `nodes`; returns dict node -> frozenset(dominators)"""
    allset = set(nodes)
    dom = {}
    for v in nodes:
        dom[v] = set(allset)
    for e in entry_nodes:
        dom[e] = {e}
    order = _rpo(entry_nodes, succ, allset)
    changed = True
    while changed:
        changed = False
        for v in order:
            if v in entry_nodes:
                continue
            ps = [p for p in pred[v] if p in allset]
            if not ps:
                new = {v}
            else:
                new = set(dom[ps[0]])
                for p in ps[1:]:
                    new &= dom[p]
                new.add(v)
            if new != dom[v]:
                dom[v] = new
                changed = True
    return dom


def _rpo(entries, succ, allowed):
    seen = set()
    out = []
    for e in entries:
        if e in seen:
            continue
        stack = [(e, iter(succ[e]))]
        seen.add(e)
        while stack:
            v, it = stack[-1]
            adv = False
            for w in it:
                if w in allowed and w not in seen:
                    seen.add(w)
                    stack.append((w, iter(succ[w])))
                    adv = True
                    break
            if not adv:
                out.append(v)
                stack.pop()
    out.reverse()
    return out


def dominators(fn):
    """dict bb -> set of blocks that dominate bb (reachable blocks only)"""
    if fn._dom is None:
        nodes = sorted(fn.reachable)
        fn._dom = _idom_sets(fn.nblocks, [0], fn.succ, fn.pred, nodes)
    return fn._dom


def postdominators(fn):
    """dict bb -> set of blocks that post-dominate bb, w.r.t. normal exits (return blocks).
    Blocks that cannot reach a return (diverging: panics, infinite loops) post-dominate nothing special;
    they are treated as additional exits so they do not poison the sets."""
    if fn._pdom is None:
        nodes = sorted(fn.reachable)
        exits = [b for b in nodes if not fn.succ[b]]
        # virtual exit = -1
        succ = {b: list(fn.succ[b]) for b in nodes}
        rsucc = {b: [] for b in nodes}
        rsucc[-1] = []
        rpred = {b: [] for b in nodes}
        rpred[-1] = []
        for b in nodes:
            for s in succ[b]:
                rsucc[s].append(b)
                rpred[b].append(s)
        for e in exits:
            rsucc[-1].append(e)
            rpred[e].append(-1)
        allnodes = nodes + [-1]
        d = _idom_sets(len(allnodes), [-1], rsucc, rpred, allnodes)
        for b in d:
            d[b].discard(-1)
        fn._pdom = d
    return fn._pdom


def dominates(fn, a, b):
    return a in dominators(fn).get(b, ())


def reach_from(fn, start, avoid=(), removed_edges=()):
    """blocks reachable from `start` (inclusive) without entering blocks in `avoid` or taking `removed_edges`"""
    avoid = set(avoid)
    removed = set(removed_edges)
    if start in avoid:
        return set()
    seen = {start}
    st = [start]
    while st:
        b = st.pop()
        for s in fn.succ[b]:
            if s not in seen and s not in avoid and (b, s) not in removed:
                seen.add(s)
                st.append(s)
    return seen


def bool_edges(fn, sbb, value):
    """edges (sbb, target) taken when the bool switched on at sbb has `value` (arm '0' = false)"""
    t = fn.term(sbb)
    out = set()
    if value:
        for v, x in t["arms"]:
            if v != "0":
                out.add((sbb, x))
        out.add((sbb, t["otherwise"]))
        # `otherwise` is the true edge only when a '0' arm exists
        if not any(v == "0" for v, _ in t["arms"]):
            out.discard((sbb, t["otherwise"]))
    else:
        for v, x in t["arms"]:
            if v == "0":
                out.add((sbb, x))
        if not any(v == "0" for v, _ in t["arms"]):
            out.add((sbb, t["otherwise"]))
    return out


def reach_from_succs(fn, bb, avoid=()):
    """blocks reachable from the successors of bb (bb itself only if on a cycle)"""
    out = set()
    for s in fn.succ[bb]:
        out |= reach_from(fn, s, avoid)
    return out


def can_reach(fn, a, b, avoid=()):
    return b in reach_from(fn, a, avoid)


def back_edges(fn):
    dom = dominators(fn)
    out = []
    for b in fn.reachable:
        for s in fn.succ[b]:
            if s in dom[b]:
                out.append((b, s))
    return out


def natural_loops(fn):
    """list of (header, set(body blocks))"""
    loops = {}
    for (t, h) in back_edges(fn):
        body = loops.setdefault(h, {h})
        st = [t]
        while st:
            x = st.pop()
            if x not in body:
                body.add(x)
                st.extend(fn.pred[x])
    return [(h, b) for h, b in loops.items()]


def region_dominated_by(fn, head):
    dom = dominators(fn)
    return {b for b in fn.reachable if head in dom[b]}


def switch_arm_regions(fn, bb):
    """for a switch terminator at bb: {value(str)|'otherwise' -> set of blocks reachable from that arm target
    that are dominated by the arm target} (blocks private to the arm)."""
    t = fn.term(bb)
    assert t["k"] == "switch"
    out = {}
    for val, tgt in t["arms"]:
        out[val] = region_dominated_by(fn, tgt)
    out["otherwise"] = region_dominated_by(fn, t["otherwise"])
    return out


def paths_must_pass(fn, start, through, ends, removed_edges=()):
    """True iff every path from `start` to any block in `ends` passes a block in `through`.
    (start itself counts if in through)"""
    through = set(through)
    if start in through:
        return True
    r = reach_from(fn, start, avoid=through, removed_edges=removed_edges)
    return not (r & set(ends))



def reach_with_bool_phis(fn, removed_edges, rounds=8, evidence_calls=()):
    """blocks reachable from the entry without `removed_edges`, to a fixpoint over `matches!`-style booleans: a switch
    on a bool local whose every definition is a constant loses its true edge once all its `true` assignments are
    unreachable (and its false edge once all `false` assignments are).  Definitions that copy the result of a call in
    `evidence_calls` (block numbers) are true only under that evidence.  Returns (reachable, removed)."""
    from .facts import op_place, const_int
    from . import flow
    removed = set(removed_edges)
    for _ in range(rounds):
        reach = reach_from(fn, 0, removed_edges=removed)
        grew = False
        for sb in sorted(fn.reachable):
            t = fn.term(sb)
            if t["k"] != "switch" or t.get("ty") != "bool":
                continue
            p = op_place(t["discr"])
            neg = False
            if p is not None and "p" not in p:
                ds = flow.whole_defs(fn, p["l"])
                if len(ds) == 1 and ds[0].kind == "stmt" and ds[0].rv["k"] == "un" and ds[0].rv["op"] == "Not":
                    p = op_place(ds[0].rv["a"])
                    neg = True
            if p is None or "p" in p:
                continue
            # a plain copy of the boolean (`_19 = _5; switch _19`)
            for _hop in range(4):
                ds = flow.whole_defs(fn, p["l"])
                if len(ds) == 1 and ds[0].kind == "stmt" and ds[0].rv["k"] == "use":
                    q = op_place(ds[0].rv["op"])
                    if q is not None and "p" not in q and len(flow.whole_defs(fn, q["l"])) > 1:
                        p = q
                        continue
                break
            defs = flow.whole_defs(fn, p["l"])
            if not defs or not all((d.kind == "stmt" and d.rv["k"] == "use") or d.kind == "call" for d in defs):
                continue
            consts = [d for d in defs if d.kind == "stmt" and const_int(d.rv["op"]) in (0, 1)]
            computed = [d for d in defs if d not in consts]
            # `let ok = a && b && test(x)`: the last conjunct is stored as it is.  A definition that copies the result of
            # one of `evidence_calls` is true only when that evidence holds: it does not count as an unprotected `true`
            unprotected = []
            for d in computed:
                if d.kind == "call":
                    if d.bb not in evidence_calls:
                        unprotected.append(d)
                    continue
                os_ = flow.origins(fn, d.rv["op"])
                if not (os_ and all(o.kind == "call" and o.call.bb in evidence_calls for o in os_)):
                    unprotected.append(d)
            for val in (1, 0):
                if val == 0 and computed:
                    continue
                sites = [d.bb for d in consts if const_int(d.rv["op"]) == val] + ([d.bb for d in unprotected] if val == 1 else [])
                if (sites or (val == 1 and computed)) and all(b not in reach for b in sites):
                    for e in bool_edges(fn, sb, bool(val) != neg):
                        if e not in removed:
                            removed.add(e)
                            grew = True
        if not grew:
            break
    return reach_from(fn, 0, removed_edges=removed), removed


_STD_DISCR = {"None": "0", "Some": "1", "Ok": "0", "Err": "1", "Continue": "0", "Break": "1"}


def reach_with_variant_phis(fn, removed_edges, rounds=6):
    """blocks reachable from the entry without `removed_edges`, to a fixpoint over refusals that travel as a value:
    a switch on the discriminant of a local whose every definition builds a known variant of a two-variant std enum
    (`Ok(())` on one path, `Err(..)` on the other - what a spliced-in checking helper leaves behind) loses the arms of
    the variants all of whose definitions have become unreachable.  Returns the reachable set."""
    from . import flow
    removed = set(removed_edges)
    reach = reach_from(fn, 0, removed_edges=removed)
    for _ in range(rounds):
        grew = False
        for sb in sorted(reach):
            t = fn.term(sb)
            if t["k"] != "switch":
                continue
            cd = flow.cond_of(fn, sb)
            if cd.kind != "discr" or cd.place is None or "p" in cd.place:
                continue
            l = cd.place["l"]
            ds = flow.whole_defs(fn, l)
            for _hop in range(3):
                if len(ds) == 1 and ds[0].kind == "stmt" and ds[0].rv["k"] == "use":
                    from .facts import op_place
                    q = op_place(ds[0].rv["op"])
                    if q is not None and "p" not in q:
                        ds = flow.whole_defs(fn, q["l"])
                        continue
                break
            if not ds or not all(d.kind == "stmt" and d.rv["k"] == "agg" and d.rv.get("variant") in _STD_DISCR for d in ds):
                continue
            live = {_STD_DISCR[d.rv["variant"]] for d in ds if d.bb in reach}
            listed = set()
            for v, x in t["arms"]:
                listed.add(str(v))
                if str(v) not in live and (sb, x) not in removed and not any(str(v2) in live and x2 == x for v2, x2 in t["arms"]):
                    removed.add((sb, x))
                    grew = True
            rest = {"0", "1"} - listed
            if not (rest & live) and (sb, t["otherwise"]) not in removed and not any(
                    str(v2) in live and x2 == t["otherwise"] for v2, x2 in t["arms"]):
                removed.add((sb, t["otherwise"]))
                grew = True
        if not grew:
            break
        reach = reach_from(fn, 0, removed_edges=removed)
    return reach
